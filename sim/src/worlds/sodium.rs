//! Minimal FFI to the system libsodium (1.0.18): the secretstream functions
//! used as the lock-step reference replica in the Stream world.

use std::os::raw::{c_int, c_uchar, c_ulonglong};

#[repr(C)]
#[derive(Clone, Copy, PartialEq, Eq, Debug)]
pub struct SodiumState {
    pub k: [u8; 32],
    pub nonce: [u8; 12],
    pub _pad: [u8; 8],
}

impl SodiumState {
    pub fn zero() -> Self {
        SodiumState { k: [0; 32], nonce: [0; 12], _pad: [0; 8] }
    }
}

#[link(name = "sodium")]
extern "C" {
    fn sodium_init() -> c_int;
    fn crypto_secretstream_xchacha20poly1305_statebytes() -> usize;
    fn crypto_secretstream_xchacha20poly1305_init_pull(state: *mut SodiumState, header: *const c_uchar, k: *const c_uchar) -> c_int;
    fn crypto_secretstream_xchacha20poly1305_push(
        state: *mut SodiumState,
        c: *mut c_uchar,
        clen_p: *mut c_ulonglong,
        m: *const c_uchar,
        mlen: c_ulonglong,
        ad: *const c_uchar,
        adlen: c_ulonglong,
        tag: c_uchar,
    ) -> c_int;
    fn crypto_secretstream_xchacha20poly1305_pull(
        state: *mut SodiumState,
        m: *mut c_uchar,
        mlen_p: *mut c_ulonglong,
        tag_p: *mut c_uchar,
        c: *const c_uchar,
        clen: c_ulonglong,
        ad: *const c_uchar,
        adlen: c_ulonglong,
    ) -> c_int;
    fn crypto_secretstream_xchacha20poly1305_rekey(state: *mut SodiumState);
}

pub fn init() {
    unsafe {
        let r = sodium_init();
        assert!(r >= 0, "sodium_init failed");
        assert_eq!(crypto_secretstream_xchacha20poly1305_statebytes(), std::mem::size_of::<SodiumState>(), "libsodium secretstream state layout");
    }
}

pub fn init_pull(header: &[u8; 24], key: &[u8; 32]) -> SodiumState {
    let mut s = SodiumState::zero();
    unsafe {
        crypto_secretstream_xchacha20poly1305_init_pull(&mut s, header.as_ptr(), key.as_ptr());
    }
    s
}

pub fn push(s: &mut SodiumState, m: &[u8], ad: Option<&[u8]>, tag: u8) -> Vec<u8> {
    let mut c = vec![0u8; m.len() + 17];
    let mut clen: c_ulonglong = 0;
    let (adp, adl) = match ad {
        Some(a) => (a.as_ptr(), a.len()),
        None => (std::ptr::null(), 0),
    };
    unsafe {
        let r = crypto_secretstream_xchacha20poly1305_push(s, c.as_mut_ptr(), &mut clen, m.as_ptr(), m.len() as c_ulonglong, adp, adl as c_ulonglong, tag);
        assert_eq!(r, 0);
    }
    c.truncate(clen as usize);
    c
}

/// Returns Some((message, tag)) when libsodium accepts.
pub fn pull(s: &mut SodiumState, c: &[u8], ad: Option<&[u8]>) -> Option<(Vec<u8>, u8)> {
    if c.len() < 17 {
        return None; // libsodium returns -1 for clen < ABYTES
    }
    let mut m = vec![0u8; c.len() - 17];
    let mut mlen: c_ulonglong = 0;
    let mut tag: c_uchar = 0;
    let (adp, adl) = match ad {
        Some(a) => (a.as_ptr(), a.len()),
        None => (std::ptr::null(), 0),
    };
    let r = unsafe { crypto_secretstream_xchacha20poly1305_pull(s, m.as_mut_ptr(), &mut mlen, &mut tag, c.as_ptr(), c.len() as c_ulonglong, adp, adl as c_ulonglong) };
    if r == 0 {
        m.truncate(mlen as usize);
        Some((m, tag))
    } else {
        None
    }
}

pub fn rekey(s: &mut SodiumState) {
    unsafe { crypto_secretstream_xchacha20poly1305_rekey(s) }
}
