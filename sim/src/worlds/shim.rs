//! Seam S3: the libc boundary of `src/protected.rs`. This binary defines
//! `mlock`, `munlock`, `mprotect`, `madvise`, `posix_memalign` and `free`
//! itself, so every call dryoc (and std) makes lands here. When *armed* (the
//! executor is inside a dryoc call) each call is recorded in a fixed-size
//! ledger, checked against the fault plan, and otherwise forwarded to the
//! real kernel (`syscall(2)`) or the real glibc (`__libc_memalign`,
//! `__libc_free`). Nothing in here allocates.
//!
//! It also hosts the kernel-view observers used as oracles: effective page
//! rights by EFAULT probing through a pipe, `/proc/self/smaps` (perms +
//! VM_LOCKED per VMA), `/proc/self/status` (VmLck), `/proc/self/mem`
//! (contents regardless of protection).

#![allow(clippy::missing_safety_doc)]

use libc::{c_int, c_void, size_t};
use std::sync::atomic::{AtomicBool, Ordering};

extern "C" {
    fn __libc_memalign(align: size_t, size: size_t) -> *mut c_void;
    fn __libc_free(p: *mut c_void);
}

#[derive(Clone, Copy, Debug, PartialEq, Eq)]
pub enum CallKind {
    Mlock,
    Munlock,
    Mprotect,
    Madvise,
    Memalign,
    Free,
}

#[derive(Clone, Copy, Debug)]
pub struct Rec {
    pub kind: CallKind,
    pub addr: usize,
    pub len: usize,
    pub arg: i32,
    pub ret: i32,
    pub injected: bool,
}

#[derive(Clone, Copy, Debug)]
pub struct Block {
    pub base: usize,
    pub size: usize,
    pub live: bool,
    /// taken from the kernel with mmap (released with munmap), not from the libc allocator
    pub mapped: bool,
}

#[derive(Clone, Copy, Debug)]
pub struct Release {
    pub base: usize,
    pub size: usize,
    pub nonzero: usize,
    pub first_nonzero_off: usize,
    pub last_nonzero_off: usize,
    pub nonzero_guard: usize,
}

#[derive(Clone, Copy, Debug, PartialEq, Eq)]
pub enum Plan {
    None,
    /// the k-th (1-based) and all later lock requests fail
    RefuseFrom { k: u32, errno: i32 },
    /// only the k-th lock request fails
    RefuseOnce { k: u32, errno: i32 },
    /// RLIMIT_MEMLOCK model: a request that would take the locked-page count above `pages` fails with ENOMEM
    Budget { pages: u32 },
    /// a policy that denies locking *and* unlocking (e.g. a seccomp profile): from the k-th
    /// lock request on every mlock and every munlock fails with `errno`
    RefuseAllFrom { k: u32, errno: i32 },
}

const MAX_RECS: usize = 2048;
const MAX_BLOCKS: usize = 512;
const MAX_RELS: usize = 512;

pub struct State {
    pub recs: [Rec; MAX_RECS],
    pub nrecs: usize,
    pub overflow: bool,
    pub blocks: [Block; MAX_BLOCKS],
    pub nblocks: usize,
    pub rels: [Release; MAX_RELS],
    pub nrels: usize,
    pub plan: Plan,
    pub lock_requests: u32,
    pub refusals: u32,
    pub munlock_refusals: u32,
    /// pages the *shim* believes are locked (for the budget plan): counted per request range
    pub budget_locked_pages: i64,
    pub peak_locked_pages: i64,
    pub locked_set: [usize; 1024],
    pub nlocked_set: usize,
    pub mem_fd: c_int,
    pub pipe_r: c_int,
    pub pipe_w: c_int,
    pub page: usize,
    /// intercepted calls since the shim was last armed (bounded liveness: one library call
    /// that makes more than `MAX_WINDOW_CALLS` of them is not making progress)
    pub window_calls: u64,
    /// release-time fault: while set, an `mprotect` that asks for rights every page of its
    /// range already has, and every `madvise`, fail (ENOMEM / EINVAL). Nothing a correct
    /// program needs is denied: memory that was writable stays writable.
    pub relfault: bool,
    pub relfault_fired: u32,
    pub relfault_fired_mprotect: u32,
}

pub const MAX_WINDOW_CALLS: u64 = 100_000;
/// exit status of a worker the shim ended for lack of progress
pub const NO_PROGRESS_EXIT: i32 = 86;

static ARMED: AtomicBool = AtomicBool::new(false);
static mut STATE: State = State {
    recs: [Rec { kind: CallKind::Free, addr: 0, len: 0, arg: 0, ret: 0, injected: false }; MAX_RECS],
    nrecs: 0,
    overflow: false,
    blocks: [Block { base: 0, size: 0, live: false, mapped: false }; MAX_BLOCKS],
    nblocks: 0,
    rels: [Release { base: 0, size: 0, nonzero: 0, first_nonzero_off: 0, last_nonzero_off: 0, nonzero_guard: 0 }; MAX_RELS],
    nrels: 0,
    plan: Plan::None,
    lock_requests: 0,
    refusals: 0,
    munlock_refusals: 0,
    budget_locked_pages: 0,
    peak_locked_pages: 0,
    locked_set: [0; 1024],
    nlocked_set: 0,
    mem_fd: -1,
    pipe_r: -1,
    pipe_w: -1,
    page: 4096,
    window_calls: 0,
    relfault: false,
    relfault_fired: 0,
    relfault_fired_mprotect: 0,
};

#[allow(static_mut_refs)]
pub fn st() -> &'static mut State {
    // single-threaded workers; the shim never re-enters itself
    unsafe { &mut STATE }
}

pub fn init() -> Result<(), String> {
    let s = st();
    if s.mem_fd >= 0 {
        return Ok(());
    }
    unsafe {
        s.page = libc::sysconf(libc::_SC_PAGE_SIZE) as usize;
        let fd = libc::open(b"/proc/self/mem\0".as_ptr() as *const libc::c_char, libc::O_RDONLY);
        if fd < 0 {
            return Err("cannot open /proc/self/mem".into());
        }
        s.mem_fd = fd;
        let mut fds = [0 as c_int; 2];
        if libc::pipe(fds.as_mut_ptr()) != 0 {
            return Err("pipe() failed".into());
        }
        s.pipe_r = fds[0];
        s.pipe_w = fds[1];
    }
    Ok(())
}

pub fn arm() {
    st().window_calls = 0;
    ARMED.store(true, Ordering::SeqCst);
}

/// Count one intercepted call; end the process when the library call in flight has made
/// more of them than any terminating call could (a retry loop that never gives up).
fn tick() {
    let s = st();
    s.window_calls += 1;
    if s.window_calls > MAX_WINDOW_CALLS {
        unsafe { libc::_exit(NO_PROGRESS_EXIT) };
    }
}

pub fn set_relfault(on: bool) {
    st().relfault = on;
}

pub fn relfault_fired() -> u32 {
    st().relfault_fired
}

pub fn relfault_fired_mprotect() -> u32 {
    st().relfault_fired_mprotect
}

pub fn disarm() {
    ARMED.store(false, Ordering::SeqCst);
}

pub fn reset(plan: Plan) {
    let s = st();
    s.nrecs = 0;
    s.overflow = false;
    s.nblocks = 0;
    s.nrels = 0;
    s.plan = plan;
    s.lock_requests = 0;
    s.refusals = 0;
    s.munlock_refusals = 0;
    s.budget_locked_pages = 0;
    s.peak_locked_pages = 0;
    s.nlocked_set = 0;
    s.window_calls = 0;
    s.relfault = false;
    s.relfault_fired = 0;
    s.relfault_fired_mprotect = 0;
}

fn set_contains(s: &State, pg: usize) -> bool {
    s.locked_set[..s.nlocked_set].iter().any(|x| *x == pg)
}

/// pages of [addr, addr+len) not yet in the shim's locked-page set
fn new_pages(s: &State, addr: usize, len: usize) -> i64 {
    if len == 0 {
        return 0;
    }
    let first = addr / s.page;
    let last = (addr + len - 1) / s.page;
    (first..=last).filter(|pg| !set_contains(s, *pg)).count() as i64
}

fn set_add(s: &mut State, addr: usize, len: usize) {
    if len == 0 {
        return;
    }
    let first = addr / s.page;
    let last = (addr + len - 1) / s.page;
    for pg in first..=last {
        if !set_contains(s, pg) && s.nlocked_set < s.locked_set.len() {
            s.locked_set[s.nlocked_set] = pg;
            s.nlocked_set += 1;
        }
    }
    s.budget_locked_pages = s.nlocked_set as i64;
}

fn set_remove(s: &mut State, addr: usize, len: usize) {
    if len == 0 {
        return;
    }
    let first = addr / s.page;
    let last = (addr + len - 1) / s.page;
    let mut i = 0;
    while i < s.nlocked_set {
        if s.locked_set[i] >= first && s.locked_set[i] <= last {
            s.locked_set[i] = s.locked_set[s.nlocked_set - 1];
            s.nlocked_set -= 1;
        } else {
            i += 1;
        }
    }
    s.budget_locked_pages = s.nlocked_set as i64;
}

fn record(r: Rec) {
    let s = st();
    if s.nrecs < MAX_RECS {
        s.recs[s.nrecs] = r;
        s.nrecs += 1;
    } else {
        s.overflow = true;
    }
}

fn set_errno(e: i32) {
    unsafe {
        *libc::__errno_location() = e;
    }
}

#[no_mangle]
pub unsafe extern "C" fn mlock(addr: *const c_void, len: size_t) -> c_int {
    if !ARMED.load(Ordering::Relaxed) {
        return libc::syscall(libc::SYS_mlock, addr, len) as c_int;
    }
    tick();
    let s = st();
    s.lock_requests += 1;
    let n = s.lock_requests;
    let want = new_pages(s, addr as usize, len);
    let refuse: Option<i32> = match s.plan {
        Plan::None => None,
        Plan::RefuseFrom { k, errno } => {
            if n >= k {
                Some(errno)
            } else {
                None
            }
        }
        Plan::RefuseOnce { k, errno } => {
            if n == k {
                Some(errno)
            } else {
                None
            }
        }
        Plan::RefuseAllFrom { k, errno } => {
            if n >= k {
                Some(errno)
            } else {
                None
            }
        }
        Plan::Budget { pages } => {
            if s.budget_locked_pages + want > pages as i64 {
                Some(libc::ENOMEM)
            } else {
                None
            }
        }
    };
    if let Some(e) = refuse {
        s.refusals += 1;
        record(Rec { kind: CallKind::Mlock, addr: addr as usize, len, arg: e, ret: -1, injected: true });
        set_errno(e);
        return -1;
    }
    let r = libc::syscall(libc::SYS_mlock, addr, len) as c_int;
    if r == 0 {
        set_add(s, addr as usize, len);
        if s.budget_locked_pages > s.peak_locked_pages {
            s.peak_locked_pages = s.budget_locked_pages;
        }
    }
    record(Rec { kind: CallKind::Mlock, addr: addr as usize, len, arg: 0, ret: r, injected: false });
    r
}

#[no_mangle]
pub unsafe extern "C" fn munlock(addr: *const c_void, len: size_t) -> c_int {
    if ARMED.load(Ordering::Relaxed) {
        tick();
        let s = st();
        if let Plan::RefuseAllFrom { k, errno } = s.plan {
            if s.lock_requests >= k {
                s.munlock_refusals += 1;
                record(Rec { kind: CallKind::Munlock, addr: addr as usize, len, arg: errno, ret: -1, injected: true });
                set_errno(errno);
                return -1;
            }
        }
    }
    let r = libc::syscall(libc::SYS_munlock, addr, len) as c_int;
    if ARMED.load(Ordering::Relaxed) {
        let s = st();
        if r == 0 {
            set_remove(s, addr as usize, len);
        }
        record(Rec { kind: CallKind::Munlock, addr: addr as usize, len, arg: 0, ret: r, injected: false });
    }
    r
}

#[no_mangle]
pub unsafe extern "C" fn mprotect(addr: *mut c_void, len: size_t, prot: c_int) -> c_int {
    if ARMED.load(Ordering::Relaxed) {
        tick();
        let s = st();
        if s.relfault && len > 0 {
            // refuse only a request that changes nothing
            let page = s.page;
            let lo = (addr as usize) & !(page - 1);
            let hi = (addr as usize + len + page - 1) & !(page - 1);
            let want = Rights { r: prot & libc::PROT_READ != 0, w: prot & libc::PROT_WRITE != 0 };
            let npages = (hi - lo) / page;
            let mut same = npages <= 4096;
            let mut pg = lo;
            while same && pg < hi {
                if probe_rights(pg) != want {
                    same = false;
                }
                pg += page;
            }
            if same {
                s.relfault_fired += 1;
                s.relfault_fired_mprotect += 1;
                record(Rec { kind: CallKind::Mprotect, addr: addr as usize, len, arg: prot, ret: -1, injected: true });
                set_errno(libc::ENOMEM);
                return -1;
            }
        }
    }
    let r = libc::syscall(libc::SYS_mprotect, addr, len, prot) as c_int;
    if ARMED.load(Ordering::Relaxed) {
        record(Rec { kind: CallKind::Mprotect, addr: addr as usize, len, arg: prot, ret: r, injected: false });
    }
    r
}

#[no_mangle]
pub unsafe extern "C" fn madvise(addr: *mut c_void, len: size_t, advice: c_int) -> c_int {
    if ARMED.load(Ordering::Relaxed) {
        tick();
        let s = st();
        if s.relfault {
            s.relfault_fired += 1;
            record(Rec { kind: CallKind::Madvise, addr: addr as usize, len, arg: advice, ret: -1, injected: true });
            set_errno(libc::EINVAL);
            return -1;
        }
    }
    let r = libc::syscall(libc::SYS_madvise, addr, len, advice) as c_int;
    if ARMED.load(Ordering::Relaxed) {
        record(Rec { kind: CallKind::Madvise, addr: addr as usize, len, arg: advice, ret: r, injected: false });
    }
    r
}

unsafe fn register_block(p: usize, size: usize, zero_fill: bool, mapped: bool) {
    let s = st();
    if zero_fill {
        // glibc hands back dirty memory: zero-fill, so that a non-zero byte seen
        // at release was written by the program
        std::ptr::write_bytes(p as *mut u8, 0, size);
    }
    let mut placed = false;
    for b in s.blocks[..s.nblocks].iter_mut() {
        if !b.live && b.base == p && b.size == size {
            b.live = true;
            b.mapped = mapped;
            placed = true;
            break;
        }
    }
    if !placed {
        if s.nblocks < MAX_BLOCKS {
            s.blocks[s.nblocks] = Block { base: p, size, live: true, mapped };
            s.nblocks += 1;
        } else {
            s.overflow = true;
        }
    }
    record(Rec { kind: CallKind::Memalign, addr: p, len: size, arg: 0, ret: 0, injected: false });
}

/// Inspect [base, base+size) through /proc/self/mem (ignores page protections) and log the release.
unsafe fn inspect_release(base: usize, size: usize, block_base: usize, block_size: usize) {
    let s = st();
    let mut buf = [0u8; 4096];
    let mut off = 0usize;
    let mut nz = 0usize;
    let mut first = usize::MAX;
    let mut last = 0usize;
    let mut nzg = 0usize;
    while off < size {
        let n = (size - off).min(buf.len());
        let r = libc::pread(s.mem_fd, buf.as_mut_ptr() as *mut c_void, n, (base + off) as libc::off_t);
        if r <= 0 {
            break;
        }
        for (j, x) in buf[..r as usize].iter().enumerate() {
            if *x != 0 {
                nz += 1;
                let o = base + off + j - block_base;
                if first == usize::MAX {
                    first = o;
                }
                last = o;
                if o < s.page || o >= block_size - s.page {
                    nzg += 1;
                }
            }
        }
        off += r as usize;
    }
    if s.nrels < MAX_RELS {
        s.rels[s.nrels] = Release { base: block_base, size: block_size, nonzero: nz, first_nonzero_off: if first == usize::MAX { 0 } else { first }, last_nonzero_off: last, nonzero_guard: nzg };
        s.nrels += 1;
    } else {
        s.overflow = true;
    }
    record(Rec { kind: CallKind::Free, addr: base, len: size, arg: nz as i32, ret: 0, injected: false });
}

#[no_mangle]
pub unsafe extern "C" fn posix_memalign(out: *mut *mut c_void, align: size_t, size: size_t) -> c_int {
    let p = __libc_memalign(align, size);
    if p.is_null() {
        return libc::ENOMEM;
    }
    *out = p;
    if ARMED.load(Ordering::Relaxed) {
        let s = st();
        if align == s.page && size >= 3 * s.page {
            register_block(p as usize, size, true, false);
        }
    }
    0
}

#[no_mangle]
pub unsafe extern "C" fn memalign(align: size_t, size: size_t) -> *mut c_void {
    let p = __libc_memalign(align, size);
    if !p.is_null() && ARMED.load(Ordering::Relaxed) {
        let s = st();
        if align == s.page && size >= 3 * s.page {
            register_block(p as usize, size, true, false);
        }
    }
    p
}

#[no_mangle]
pub unsafe extern "C" fn aligned_alloc(align: size_t, size: size_t) -> *mut c_void {
    memalign(align, size)
}

#[no_mangle]
pub unsafe extern "C" fn free(p: *mut c_void) {
    if ARMED.load(Ordering::Relaxed) && !p.is_null() {
        let s = st();
        let mut hit: Option<usize> = None;
        for (i, b) in s.blocks[..s.nblocks].iter().enumerate() {
            if b.live && b.base == p as usize {
                hit = Some(i);
                break;
            }
        }
        if let Some(i) = hit {
            let b = s.blocks[i];
            s.blocks[i].live = false;
            inspect_release(b.base, b.size, b.base, b.size);
        }
    }
    __libc_free(p)
}

// An allocator may also take its pages straight from the kernel: anonymous
// mappings made inside a dryoc call are blocks too, and munmap is their release.
#[no_mangle]
pub unsafe extern "C" fn mmap(addr: *mut c_void, len: size_t, prot: c_int, flags: c_int, fd: c_int, off: libc::off_t) -> *mut c_void {
    let r = libc::syscall(libc::SYS_mmap, addr, len, prot, flags, fd, off);
    let p = r as *mut c_void;
    if ARMED.load(Ordering::Relaxed) && p != libc::MAP_FAILED && (flags & libc::MAP_ANONYMOUS) != 0 {
        let s = st();
        if len >= 3 * s.page {
            // fresh anonymous pages are zero already (and may be PROT_NONE): do not touch them
            register_block(p as usize, len, false, true);
        }
    }
    p
}

#[no_mangle]
pub unsafe extern "C" fn mmap64(addr: *mut c_void, len: size_t, prot: c_int, flags: c_int, fd: c_int, off: libc::off_t) -> *mut c_void {
    mmap(addr, len, prot, flags, fd, off)
}

#[no_mangle]
pub unsafe extern "C" fn munmap(addr: *mut c_void, len: size_t) -> c_int {
    if ARMED.load(Ordering::Relaxed) && len > 0 {
        let s = st();
        let a = addr as usize;
        for i in 0..s.nblocks {
            let b = s.blocks[i];
            if b.live && a < b.base + b.size && b.base < a + len {
                let lo = a.max(b.base);
                let hi = (a + len).min(b.base + b.size);
                inspect_release(lo, hi - lo, b.base, b.size);
                if lo == b.base && hi == b.base + b.size {
                    s.blocks[i].live = false;
                } else if lo == b.base {
                    // front part unmapped: the block shrinks
                    s.blocks[i].base = hi;
                    s.blocks[i].size = b.base + b.size - hi;
                } else if hi == b.base + b.size {
                    s.blocks[i].size = lo - b.base;
                } else {
                    // a hole in the middle: keep the front part, the rest is no longer tracked
                    s.blocks[i].size = lo - b.base;
                }
            }
        }
    }
    libc::syscall(libc::SYS_munmap, addr, len) as c_int
}

// ---------------------------------------------------------------------------
// observers
// ---------------------------------------------------------------------------

#[derive(Clone, Copy, Debug, PartialEq, Eq)]
pub struct Rights {
    pub r: bool,
    pub w: bool,
}

impl Rights {
    pub fn name(&self) -> &'static str {
        match (self.r, self.w) {
            (true, true) => "rw",
            (true, false) => "r-",
            (false, false) => "--",
            (false, true) => "-w",
        }
    }
}

/// Read bytes regardless of protection. None = unmapped.
pub fn peek(addr: usize, buf: &mut [u8]) -> Option<()> {
    let s = st();
    let r = unsafe { libc::pread(s.mem_fd, buf.as_mut_ptr() as *mut c_void, buf.len(), addr as libc::off_t) };
    if r == buf.len() as isize {
        Some(())
    } else {
        None
    }
}

/// The kernel's own access check on one byte: `write(pipe, addr, 1)` succeeds
/// iff readable; `read(pipe, addr, 1)` of the byte already there succeeds iff
/// writable. No signals, no fork.
pub fn probe_rights(addr: usize) -> Rights {
    let s = st();
    unsafe {
        let mut sink = [0u8; 1];
        let w = libc::write(s.pipe_w, addr as *const c_void, 1);
        let readable = w == 1;
        if readable {
            libc::read(s.pipe_r, sink.as_mut_ptr() as *mut c_void, 1);
        }
        // the byte currently stored there (regardless of protection)
        let mut b = [0u8; 1];
        if peek(addr, &mut b).is_none() {
            return Rights { r: readable, w: false };
        }
        libc::write(s.pipe_w, b.as_ptr() as *const c_void, 1);
        let r = libc::read(s.pipe_r, addr as *mut c_void, 1);
        let writable = r == 1;
        if !writable {
            libc::read(s.pipe_r, sink.as_mut_ptr() as *mut c_void, 1);
        }
        Rights { r: readable, w: writable }
    }
}

#[derive(Clone, Debug)]
pub struct Vma {
    pub start: usize,
    pub end: usize,
    pub r: bool,
    pub w: bool,
    pub locked: bool,
    /// VM_DONTCOPY (`dc`): the mapping is not inherited by a forked child (MADV_DONTFORK)
    pub dontfork: bool,
}

fn read_file(path: &str, buf: &mut Vec<u8>) -> bool {
    use std::io::Read;
    buf.clear();
    match std::fs::File::open(path) {
        Ok(mut f) => f.read_to_end(buf).is_ok(),
        Err(_) => false,
    }
}

/// Parse /proc/self/smaps: address range, perms, and whether VmFlags contains `lo`.
pub fn smaps(scratch: &mut Vec<u8>, out: &mut Vec<Vma>) -> bool {
    out.clear();
    if !read_file("/proc/self/smaps", scratch) {
        return false;
    }
    let mut cur: Option<Vma> = None;
    for line in scratch.split(|b| *b == b'\n') {
        if line.is_empty() {
            continue;
        }
        let c0 = line[0];
        if c0.is_ascii_hexdigit() && !c0.is_ascii_uppercase() && line.iter().take(20).any(|b| *b == b'-') {
            // header: start-end perms ...
            if let Some(v) = cur.take() {
                out.push(v);
            }
            let mut i = 0;
            let mut start = 0usize;
            while i < line.len() && line[i] != b'-' {
                start = start * 16 + (line[i] as char).to_digit(16).unwrap_or(0) as usize;
                i += 1;
            }
            i += 1;
            let mut end = 0usize;
            while i < line.len() && line[i] != b' ' {
                end = end * 16 + (line[i] as char).to_digit(16).unwrap_or(0) as usize;
                i += 1;
            }
            i += 1;
            let r = line.get(i) == Some(&b'r');
            let w = line.get(i + 1) == Some(&b'w');
            cur = Some(Vma { start, end, r, w, locked: false, dontfork: false });
        } else if line.starts_with(b"VmFlags:") {
            if let Some(v) = cur.as_mut() {
                v.locked = line[8..].split(|b| *b == b' ').any(|t| t == b"lo");
                v.dontfork = line[8..].split(|b| *b == b' ').any(|t| t == b"dc");
            }
        }
    }
    if let Some(v) = cur.take() {
        out.push(v);
    }
    true
}

pub fn vma_of(vmas: &[Vma], addr: usize) -> Option<&Vma> {
    // sorted by address
    let mut lo = 0usize;
    let mut hi = vmas.len();
    while lo < hi {
        let mid = (lo + hi) / 2;
        if vmas[mid].end <= addr {
            lo = mid + 1;
        } else {
            hi = mid;
        }
    }
    vmas.get(lo).filter(|v| v.start <= addr && addr < v.end)
}

/// VmLck in bytes from /proc/self/status.
pub fn vmlck(scratch: &mut Vec<u8>) -> Option<usize> {
    if !read_file("/proc/self/status", scratch) {
        return None;
    }
    for line in scratch.split(|b| *b == b'\n') {
        if line.starts_with(b"VmLck:") {
            let s = String::from_utf8_lossy(&line[6..]);
            let kb: usize = s.trim().trim_end_matches("kB").trim().parse().ok()?;
            return Some(kb * 1024);
        }
    }
    None
}

pub fn take_recs() -> Vec<Rec> {
    let s = st();
    let v = s.recs[..s.nrecs].to_vec();
    s.nrecs = 0;
    v
}

pub fn take_releases() -> Vec<Release> {
    let s = st();
    let v = s.rels[..s.nrels].to_vec();
    s.nrels = 0;
    v
}

pub fn live_block_containing(addr: usize) -> Option<Block> {
    let s = st();
    s.blocks[..s.nblocks].iter().find(|b| b.live && b.base <= addr && addr < b.base + b.size).copied()
}

/// End of a run, every handle gone: hand blocks the library never released back to the system
/// (after they have been judged), so that a leaking build does not slow every later run of
/// the worker down with an ever longer /proc/self/smaps. Returns how many there were.
pub fn release_leaked() -> usize {
    let s = st();
    let mut n = 0;
    for i in 0..s.nblocks {
        let b = s.blocks[i];
        if !b.live {
            continue;
        }
        n += 1;
        unsafe {
            libc::syscall(libc::SYS_munlock, b.base, b.size);
            if b.mapped {
                libc::syscall(libc::SYS_munmap, b.base, b.size);
            } else {
                libc::syscall(libc::SYS_mprotect, b.base, b.size, libc::PROT_READ | libc::PROT_WRITE);
                libc::syscall(libc::SYS_madvise, b.base, b.size, libc::MADV_DOFORK);
                __libc_free(b.base as *mut c_void);
            }
        }
        s.blocks[i].live = false;
    }
    n
}

pub fn all_blocks() -> Vec<Block> {
    let s = st();
    s.blocks[..s.nblocks].to_vec()
}
