//! Stream world (C03; stream clauses of C02, C04, C17): dryoc push node `Tx`,
//! dryoc pull node `Rx`, a `Foreign` sender, and libsodium's secretstream
//! driven in lock step as reference replica (`RefTx`, `RefRx`). The simulator
//! owns the channel between them.

use super::boxw::{install_rng, uninstall_rng};
use super::sodium::{self, SodiumState};
use crate::kit::prng::{draw_len, pattern, Rng};
use crate::kit::*;
use dryoc::classic::crypto_secretstream_xchacha20poly1305 as ss;
use dryoc::dryocstream::{DryocStream, Pull, Push, Tag};
use serde::{Deserialize, Serialize};

#[derive(Clone, Copy, Debug, Serialize, Deserialize, PartialEq, Eq)]
pub enum TxFlavour {
    Classic,
    Object,
}

#[derive(Clone, Copy, Debug, Serialize, Deserialize, PartialEq, Eq)]
pub enum RxFlavour {
    Classic,
    Object,
    ObjectToVec,
    /// build N: pull into the protected heap container
    ObjectHeap,
}

impl RxFlavour {
    fn name(&self) -> &'static str {
        match self {
            RxFlavour::Classic => "classic.pull",
            RxFlavour::Object => "DryocStream::pull",
            RxFlavour::ObjectToVec => "DryocStream::pull_to_vec",
            RxFlavour::ObjectHeap => "DryocStream::pull<HeapBytes>",
        }
    }
}

#[derive(Clone, Copy, Debug, Serialize, Deserialize, PartialEq, Eq)]
pub enum CounterClass {
    Natural,
    Mid(u32),
    FFFFFFFD,
    FFFFFFFE,
    FFFFFFFF,
}

impl CounterClass {
    fn value(&self) -> u32 {
        match self {
            CounterClass::Natural => 1,
            CounterClass::Mid(v) => *v,
            CounterClass::FFFFFFFD => 0xffff_fffd,
            CounterClass::FFFFFFFE => 0xffff_fffe,
            CounterClass::FFFFFFFF => 0xffff_ffff,
        }
    }
    fn name(&self) -> &'static str {
        match self {
            CounterClass::Natural => "1",
            CounterClass::Mid(_) => "mid",
            CounterClass::FFFFFFFD => "fffffffd",
            CounterClass::FFFFFFFE => "fffffffe",
            CounterClass::FFFFFFFF => "ffffffff",
        }
    }
}

#[derive(Clone, Copy, Debug, Serialize, Deserialize, PartialEq, Eq)]
pub enum Where {
    TagByte,
    Body,
    Mac,
}

#[derive(Clone, Debug, Serialize, Deserialize, PartialEq)]
pub enum Wrong {
    Replay { back: usize },
    Skip { ahead: usize },
    Foreign,
    AdFlip { bit: usize },
    AdTruncate { k: usize },
    AdExtend { k: usize },
    AdPresence,
    BitFlip { at: Where, bit: usize },
    Truncate { k: usize },
    Extend { k: usize, fill: u8 },
    HeaderFlip { bit: usize },
    KeyFlip { bit: usize },
    Garbage { len: usize, kind: u8 },
    /// the genuine next packet, but the caller's message buffer is k bytes too short (classic pull)
    ShortBuffer { k: usize },
    /// the next packet with one bit flipped, pulled into a message buffer that is k bytes too
    /// short (k = the whole message: an empty buffer) — two things wrong in the same call
    ShortForged { k: usize, at: Where, bit: usize },
}

impl Wrong {
    fn kind(&self) -> &'static str {
        match self {
            Wrong::Replay { .. } => "replay",
            Wrong::Skip { .. } => "skip",
            Wrong::Foreign => "foreign",
            Wrong::AdFlip { .. } => "ad.flip",
            Wrong::AdTruncate { .. } => "ad.truncate",
            Wrong::AdExtend { .. } => "ad.extend",
            Wrong::AdPresence => "ad.presence",
            Wrong::BitFlip { at, .. } => match at {
                Where::TagByte => "flip.tagbyte",
                Where::Body => "flip.body",
                Where::Mac => "flip.mac",
            },
            Wrong::Truncate { .. } => "truncate",
            Wrong::Extend { .. } => "extend",
            Wrong::HeaderFlip { .. } => "flip.header",
            Wrong::KeyFlip { .. } => "flip.key",
            Wrong::Garbage { .. } => "garbage",
            Wrong::ShortBuffer { .. } => "short.buffer",
            Wrong::ShortForged { .. } => "short.forged",
        }
    }
}

#[derive(Clone, Debug, Serialize, Deserialize)]
pub struct Config {
    pub prop: String,
    pub tx: TxFlavour,
    pub rx: RxFlavour,
    pub counter: CounterClass,
    pub rseed: u64,
    pub fault_free: bool,
    pub pushes: usize,
    pub any_tag_pct: u8,
}

#[derive(Clone, Debug, Serialize, Deserialize)]
pub enum Event {
    Push { mlen: usize, ad: Option<usize>, tag: u8, fill: u64 },
    RekeyBoth,
    DeliverNext,
    DeliverWrong {
        kind: Wrong,
        /// classic pull only: the caller's message buffer is this many bytes longer than needed
        #[serde(default)]
        extra: usize,
        /// after the rejection the application rolls its pull state back to the copy (`Clone`) it
        /// took before the call — a checkpoint must be an exact copy
        #[serde(default)]
        restore: bool,
    },
    Drain,
}

#[derive(Clone, Debug)]
struct Pkt {
    ct: Vec<u8>,
    ad: Option<Vec<u8>>,
    msg: Vec<u8>,
    tag: u8,
    foreign_ct: Vec<u8>,
}

#[derive(Clone, Debug)]
enum Item {
    Packet(usize),
    Rekey,
}

enum Tx {
    Classic(ss::State),
    Object(DryocStream<Push>),
}

enum Rx {
    Classic(ss::State),
    Object(DryocStream<Pull>),
}

impl Clone for Rx {
    fn clone(&self) -> Self {
        match self {
            Rx::Classic(s) => Rx::Classic(s.clone()),
            // `Pull` is not Clone, so DryocStream<Pull> is not either; copy through hook H2
            Rx::Object(o) => Rx::Object(DryocStream::verif_from_state(o.verif_state().clone())),
        }
    }
}

impl Rx {
    fn parts(&self) -> ([u8; 32], [u8; 12]) {
        match self {
            Rx::Classic(s) => s.verif_parts(),
            Rx::Object(o) => o.verif_state().verif_parts(),
        }
    }
}

pub struct StreamWorld {
    cfg: Config,
    key: [u8; 32],
    header: [u8; 24],
    tx: Tx,
    rx: Rx,
    ref_tx: SodiumState,
    ref_rx: SodiumState,
    foreign: ss::State,
    packets: Vec<Pkt>,
    items: Vec<Item>,
    cursor: usize, // index into items
    delivered: Vec<usize>, // packet indices accepted so far, in order
    // policy state
    pushes_left: usize,
    drained: bool,
    events: usize,
    last_was_special: bool,
    last_reject: Option<&'static str>,
    err_texts: std::cell::RefCell<std::collections::BTreeMap<(String, usize, usize), String>>,
}

const SENTINEL: u8 = 0xC3;
const TAG_SENTINEL: u8 = 0xEE;

fn with_counter(parts: ([u8; 32], [u8; 12]), c: u32) -> ss::State {
    let (k, mut n) = parts;
    // the natural class keeps exactly what init produced (so that a wrong
    // initial counter is not papered over); the others preset the counter
    if c != 1 {
        n[..4].copy_from_slice(&c.to_le_bytes());
    }
    ss::State::verif_from_parts(k, n)
}

fn tag_class(t: u8) -> &'static str {
    match t {
        0 => "message",
        1 => "push",
        2 => "rekey",
        3 => "final",
        _ => "other",
    }
}

enum PullResult {
    Accept(Vec<u8>, u8),
    Reject,
    Unwind(String, String),
}

struct PullObs {
    res: PullResult,
    err_text: Option<String>,
    /// classic only: (message buffer before, after, tag var after)
    c17: Option<(Vec<u8>, Vec<u8>, u8)>,
    peak_alloc: usize,
}

impl StreamWorld {
    fn tx_parts(&self) -> ([u8; 32], [u8; 12]) {
        match &self.tx {
            Tx::Classic(s) => s.verif_parts(),
            Tx::Object(o) => o.verif_state().verif_parts(),
        }
    }

    fn pending_packets(&self) -> Vec<usize> {
        self.items[self.cursor..].iter().filter_map(|i| if let Item::Packet(p) = i { Some(*p) } else { None }).collect()
    }

    /// consume rekey markers at the cursor (both pull replicas rekey)
    fn consume_markers(&mut self, out: &mut Out) {
        while let Some(Item::Rekey) = self.items.get(self.cursor) {
            match &mut self.rx {
                Rx::Classic(s) => ss::crypto_secretstream_xchacha20poly1305_rekey(s),
                Rx::Object(o) => o.rekey(),
            }
            sodium::rekey(&mut self.ref_rx);
            self.cursor += 1;
            out.probe("rx.explicit_rekey");
            self.check_rx_lockstep(out, "rekey");
        }
    }

    fn check_rx_lockstep(&self, out: &mut Out, evkind: &str) {
        let (k, n) = self.rx.parts();
        if k != self.ref_rx.k || n != self.ref_rx.nonce {
            out.violate(
                "C03",
                "c03.state_lockstep_rx",
                site(&[("flavour", self.cfg.rx.name()), ("event", evkind), ("counter", self.cfg.counter.name())]),
                format!("pull state after {} differs from libsodium's: dryoc nonce {} key {}.. / libsodium nonce {} key {}..", evkind, hex(&n), hex(&k[..8]), hex(&self.ref_rx.nonce), hex(&self.ref_rx.k[..8])),
            );
        }
    }

    fn do_pull(rx: &mut Rx, flavour: RxFlavour, ct: &[u8], ad: Option<&[u8]>) -> PullObs {
        Self::do_pull_short(rx, flavour, ct, ad, 0, 0)
    }

    fn do_pull_short(rx: &mut Rx, flavour: RxFlavour, ct: &[u8], ad: Option<&[u8]>, shortfall: usize, extra: usize) -> PullObs {
        let mut c17 = None;
        let mut err_text: Option<String> = None;
        crate::kit::alloc::arm();
        let r = guarded(|| -> Option<(Vec<u8>, u8)> {
            match (rx, flavour) {
                (Rx::Classic(s), _) => {
                    let mut m = vec![SENTINEL; ct.len().saturating_sub(17).saturating_sub(shortfall) + extra];
                    let before = m.clone();
                    let mut tag = TAG_SENTINEL;
                    let r = ss::crypto_secretstream_xchacha20poly1305_pull(s, &mut m, &mut tag, ct, ad);
                    c17 = Some((before, m.clone(), tag));
                    match r {
                        Ok(n) => {
                            m.truncate(n);
                            Some((m, tag))
                        }
                        Err(e) => {
                            err_text = Some(format!("{:?}", e));
                            None
                        }
                    }
                }
                (Rx::Object(o), RxFlavour::Object) => {
                    let ctv = ct.to_vec();
                    let adv = ad.map(|a| a.to_vec());
                    let r: Result<(Vec<u8>, Tag), _> = o.pull(&ctv, adv.as_ref());
                    r.map_err(|e| { err_text = Some(format!("{:?}", e)); e }).ok().map(|(m, t)| (m, t.bits()))
                }
                #[cfg(feature = "nightly")]
                (Rx::Object(o), RxFlavour::ObjectHeap) => {
                    use dryoc::types::Bytes;
                    let ctv = ct.to_vec();
                    let adv = ad.map(|a| a.to_vec());
                    let r: Result<(dryoc::protected::HeapBytes, Tag), _> = o.pull(&ctv, adv.as_ref());
                    r.map_err(|e| { err_text = Some(format!("{:?}", e)); e }).ok().map(|(m, t)| (m.as_slice().to_vec(), t.bits()))
                }
                (Rx::Object(o), _) => {
                    let ctv = ct.to_vec();
                    let adv = ad.map(|a| a.to_vec());
                    o.pull_to_vec(&ctv, adv.as_ref()).map_err(|e| { err_text = Some(format!("{:?}", e)); e }).ok().map(|(m, t)| (m, t.bits()))
                }
            }
        });
        let peak_alloc = crate::kit::alloc::disarm();
        let res = match r {
            Ok(Some((m, t))) => PullResult::Accept(m, t),
            Ok(None) => PullResult::Reject,
            Err((l, m)) => PullResult::Unwind(l, m),
        };
        PullObs { res, err_text, c17, peak_alloc }
    }

    /// Judgements that apply to every delivery whatever it was (C04, C17).
    fn judge_errtext(&self, obs: &PullObs, kind: &str, ct_len: usize, ad_len: usize, out: &mut Out) {
        if let (PullResult::Reject, Some(t)) = (&obs.res, &obs.err_text) {
            let mut m = self.err_texts.borrow_mut();
            match m.get(&(kind.to_string(), ct_len, ad_len)) {
                Some(prev) if prev != t => out.violate(
                    "C17",
                    "c17.errtext",
                    site(&[("receiver", &format!("stream.{}", self.cfg.rx.name()))]),
                    format!("two rejected pulls of identical lengths produced different error values, so the error depends on the rejected bytes: {:?} vs {:?}", prev, t),
                ),
                Some(_) => out.probe("c17.errtext_compared"),
                None => {
                    m.insert((kind.to_string(), ct_len, ad_len), t.clone());
                }
            }
        }
    }

    fn judge_common(&self, obs: &PullObs, ct_len: usize, fault: &str, out: &mut Out) {
        let lc = if ct_len < 17 { "<overhead" } else if ct_len == 17 { "=overhead" } else { ">overhead" };
        let recv = format!("stream.{}", self.cfg.rx.name());
        if let PullResult::Unwind(loc, msg) = &obs.res {
            out.probe("receiver.unwound");
            out.violate(
                "C04",
                "c04.panic",
                site(&[("receiver", &recv), ("fault", fault), ("len_class", lc), ("panic_site", loc)]),
                format!("{} unwound on a {}-byte ciphertext (delivery kind {}): {} at {}", recv, ct_len, fault, msg, loc),
            );
        }
        let bound = 8 * ct_len + (16 << 20);
        if obs.peak_alloc > bound {
            out.violate("C04", "c04.alloc_bound", site(&[("receiver", &recv), ("len_class", lc)]), format!("largest single allocation during the call was {} bytes for a {}-byte ciphertext (bound {})", obs.peak_alloc, ct_len, bound));
        }
        if let (Some((before, after, tagvar)), PullResult::Reject) = (&obs.c17, &obs.res) {
            out.probe("c17.observed_reject");
            let bad = after.iter().zip(before.iter()).filter(|(a, b)| a != b && **a != 0).count();
            if bad > 0 || after.len() != before.len() {
                out.violate(
                    "C17",
                    "c17.msgbuf",
                    site(&[("receiver", &recv), ("fault", fault)]),
                    format!("after Err, {} of {} bytes of the caller's message buffer are neither their previous value nor zero (delivery kind {})", bad, after.len(), fault),
                );
            }
            if *tagvar != TAG_SENTINEL {
                out.violate("C17", "c17.tagvar", site(&[("receiver", &recv)]), format!("after Err, the caller's tag variable was overwritten ({:#04x} -> {:#04x}; delivery kind {})", TAG_SENTINEL, tagvar, fault));
            }
        }
    }

    fn deliver_next(&mut self, out: &mut Out, in_drain: bool) -> bool {
        self.consume_markers(out);
        let pi = match self.items.get(self.cursor) {
            Some(Item::Packet(p)) => *p,
            _ => return false,
        };
        let pkt = self.packets[pi].clone();
        let flavour = self.cfg.rx;
        let obs = Self::do_pull(&mut self.rx, flavour, &pkt.ct, pkt.ad.as_deref());
        out.op();
        self.judge_common(&obs, pkt.ct.len(), "none", out);
        let refr = sodium::pull(&mut self.ref_rx, &pkt.ct, pkt.ad.as_deref());
        let tc = tag_class(pkt.tag);
        out.cell(&format!("next|{}|{}|{}|{}|{}", self.cfg.counter.name(), tc, pkt.msg.len() % 16, pkt.ad.as_ref().map(|a| (a.len() % 16) as i32).unwrap_or(-1), flavour.name()));
        match &obs.res {
            PullResult::Accept(m, t) => {
                out.note(&format!("deliver next #{} -> accept tag={} mlen={}", pi, t, m.len()));
                out.probe("deliver.next.accepted");
                if *m != pkt.msg || *t != pkt.tag {
                    out.violate("C03", "c03.payload_equal", site(&[("flavour", flavour.name())]), format!("packet #{} accepted but message/tag differ from what was pushed (tag pushed {:#04x}, pulled {:#04x})", pi, pkt.tag, t));
                    out.violate("C02", "c02.accept_untampered", site(&[("suite", "stream"), ("sender", &format!("{:?}", self.cfg.tx)), ("receiver", flavour.name())]), "accepted with a different plaintext".into());
                }
                if refr.is_none() {
                    out.violate("C03", "c03.verdict_parity", site(&[("kind", "next")]), format!("dryoc accepts the genuine packet #{} but libsodium rejects it", pi));
                }
                self.cursor += 1;
                self.delivered.push(pi);
                self.check_rx_lockstep(out, "pull");
                let before_wrap = self.rx.parts().1[..4] == [1, 0, 0, 0] && pkt.tag & 2 == 0;
                if before_wrap {
                    out.probe("rx.counter_wrap_rekey");
                }
                self.last_reject = None;
                true
            }
            other => {
                let how = match other {
                    PullResult::Reject => "rejected".to_string(),
                    PullResult::Unwind(l, m) => format!("unwound: {} at {}", m, l),
                    _ => unreachable!(),
                };
                out.note(&format!("deliver next #{} -> {}", pi, how));
                let check = if in_drain { "c03.drain" } else { "c03.accept_next" };
                out.violate(
                    "C03",
                    check,
                    site(&[("flavour", flavour.name()), ("tag", tc), ("preceded_by", self.last_reject.unwrap_or("none"))]),
                    format!("the genuine next packet #{} (tag {:#04x}, {} bytes, pushed in order) was {}", pi, pkt.tag, pkt.msg.len(), how),
                );
                out.violate("C02", "c02.accept_untampered", site(&[("suite", "stream"), ("sender", &format!("{:?}", self.cfg.tx)), ("receiver", flavour.name())]), format!("untampered stream packet #{} was {}", pi, how));
                false
            }
        }
    }
}

impl World for StreamWorld {
    const NAME: &'static str = "stream";
    type Config = Config;
    type Event = Event;

    fn gen_config(rng: &mut Rng, prop: &str, _tier: Tier, _run: u64) -> Config {
        let tx = if rng.chance(1, 2) { TxFlavour::Classic } else { TxFlavour::Object };
        let mut rxs = vec![RxFlavour::Classic, RxFlavour::Object, RxFlavour::ObjectToVec];
        if prop == "C17" {
            rxs = vec![RxFlavour::Classic];
        }
        if cfg!(feature = "nightly") {
            rxs = vec![RxFlavour::ObjectHeap];
        }
        let rx = *rng.pick(&rxs);
        let counter = match rng.below(10) {
            0..=2 => CounterClass::Natural,
            3..=4 => {
                if rng.chance(1, 3) {
                    // carry chains of the little-endian counter increment
                    let base = *rng.pick(&[0x0000_00ffu32, 0x0000_ffff, 0x00ff_ffff, 0x0100_0000, 0x7fff_ffff, 0x8000_0000, 0x00ff_00ff]);
                    CounterClass::Mid(base.wrapping_sub(rng.below(3) as u32).max(2))
                } else {
                    CounterClass::Mid(rng.range(2, 0xffff_fff0) as u32)
                }
            }
            5..=6 => CounterClass::FFFFFFFD,
            7..=8 => CounterClass::FFFFFFFE,
            _ => CounterClass::FFFFFFFF,
        };
        Config {
            prop: prop.to_string(),
            tx,
            rx,
            counter,
            rseed: rng.next_u64(),
            fault_free: rng.chance(1, 8),
            pushes: 1 + rng.usize_below(7),
            any_tag_pct: if prop == "C04" { 50 } else { 10 },
        }
    }

    fn new(cfg: &Config) -> Self {
        sodium::init();
        install_rng(cfg.rseed);
        let mut key = [0u8; 32];
        ss::crypto_secretstream_xchacha20poly1305_keygen(&mut key);
        let c = cfg.counter.value();
        // Tx: header chosen by dryoc through the simulated generator
        // (a quarter of the runs hand init_push a header variable that still holds something)
        let mut header = if cfg.rseed & 24 == 24 { [0xEEu8; 24] } else { [0u8; 24] };
        let (tx, tx_parts) = match cfg.tx {
            TxFlavour::Classic => {
                // half of the classic runs initialise a *reused* state object (dirty key, nonce
                // and counter): init must not depend on what the state held before
                let mut st = if cfg.rseed & 1 == 1 { ss::State::verif_from_parts([0xA5; 32], [0xFF; 12]) } else { ss::State::new() };
                ss::crypto_secretstream_xchacha20poly1305_init_push(&mut st, &mut header, &key);
                let p = st.verif_parts();
                (Tx::Classic(with_counter(p, c)), p)
            }
            TxFlavour::Object => {
                let (s, h): (DryocStream<Push>, [u8; 24]) = DryocStream::init_push(&key);
                header = h;
                let p = s.verif_state().verif_parts();
                (Tx::Object(DryocStream::verif_from_state(with_counter(p, c))), p)
            }
        };
        let _ = tx_parts;
        let rx = match cfg.rx {
            RxFlavour::Classic => {
                let mut st = if cfg.rseed & 2 == 2 { ss::State::verif_from_parts([0x5A; 32], [0xFF; 12]) } else { ss::State::new() };
                ss::crypto_secretstream_xchacha20poly1305_init_pull(&mut st, &header, &key);
                Rx::Classic(with_counter(st.verif_parts(), c))
            }
            _ => {
                let s: DryocStream<Pull> = DryocStream::init_pull(&key, &header);
                Rx::Object(DryocStream::verif_from_state(with_counter(s.verif_state().verif_parts(), c)))
            }
        };
        let mut ref_tx = sodium::init_pull(&header, &key);
        ref_tx.nonce[..4].copy_from_slice(&c.to_le_bytes());
        let ref_rx = ref_tx;
        // a second sender at the same counter: other key and a fresh header variable, or (half of
        // the runs) a second session under the SAME key whose caller re-uses the header variable
        // of the first — init_push must overwrite it with a fresh header
        let mut fkey = [0u8; 32];
        ss::crypto_secretstream_xchacha20poly1305_keygen(&mut fkey);
        let mut fh = [0u8; 24];
        if cfg.rseed & 4 == 4 {
            fkey = key;
            fh = header;
        }
        let mut fst = ss::State::new();
        ss::crypto_secretstream_xchacha20poly1305_init_push(&mut fst, &mut fh, &fkey);
        let foreign = with_counter(fst.verif_parts(), c);
        StreamWorld {
            cfg: cfg.clone(),
            key,
            header,
            tx,
            rx,
            ref_tx,
            ref_rx,
            foreign,
            packets: Vec::new(),
            items: Vec::new(),
            cursor: 0,
            delivered: Vec::new(),
            pushes_left: cfg.pushes,
            drained: false,
            events: 0,
            last_was_special: false,
            last_reject: None,
            err_texts: std::cell::RefCell::new(std::collections::BTreeMap::new()),
        }
    }

    fn next_event(&mut self, rng: &mut Rng) -> Option<Event> {
        if self.drained {
            return None;
        }
        self.events += 1;
        let pending = self.pending_packets();
        if self.events > 26 || (self.pushes_left == 0 && pending.is_empty()) {
            self.drained = true;
            return Some(Event::Drain);
        }
        let prop = self.cfg.prop.as_str();
        // keep a few packets in flight so that skip/swap/replay have material
        let want_push = self.pushes_left > 0 && (pending.is_empty() || (pending.len() < 3 && rng.chance(1, 2)));
        if want_push {
            if rng.chance(1, 10) {
                self.last_was_special = true;
                return Some(Event::RekeyBoth);
            }
            self.pushes_left -= 1;
            let tag = if rng.below(100) < self.cfg.any_tag_pct as u64 {
                rng.below(256) as u8
            } else {
                match rng.below(10) {
                    0..=5 => 0,
                    6 => 1,
                    7..=8 => 2,
                    _ => 3,
                }
            };
            let ad = if rng.chance(2, 5) {
                None
            } else {
                Some(match rng.below(8) {
                    0 | 1 => *rng.pick(&[0usize, 1, 15, 16, 17, 31, 32, 33, 48, 63, 64, 65, 127, 128, 129, 255, 256, 257]),
                    2 => rng.usize_below(400),
                    _ => rng.usize_below(41),
                })
            };
            if tag & 2 == 2 {
                self.last_was_special = true;
            }
            let mlen = if rng.chance(1, 60) { 4000 + rng.usize_below(66_000) } else { draw_len(rng, 600) };
            return Some(Event::Push { mlen, ad, tag, fill: rng.next_u64() % 1000 });
        }
        // a wrong delivery, biased to land right after a rekey / REKEY / FINAL / wrap
        let p_wrong = if self.cfg.fault_free { 0 } else if self.last_was_special { 70 } else { 45 };
        if rng.below(100) < p_wrong {
            self.last_was_special = false;
            let next_pkt = &self.packets[pending[0]];
            let clen = next_pkt.ct.len();
            let adlen = next_pkt.ad.as_ref().map(|a| a.len()).unwrap_or(0);
            let mut kinds: Vec<u32> = Vec::new();
            // weights per kind index
            let w = |name: &str| -> u32 {
                match (prop, name) {
                    ("C02", "replay") | ("C02", "skip") | ("C02", "foreign") | ("C02", "garbage") | ("C02", "adpresence") | ("C17", "shortbuf") => 0,
                    (_, "shortbuf") => 4,
                    ("C17", "shortforged") => 8,
                    (_, "shortforged") => 4,
                    ("C02", _) => 10,
                    ("C04", "garbage") | ("C04", "truncate") => 30,
                    ("C04", _) => 4,
                    ("C17", "header") | ("C17", "key") => 2,
                    ("C17", "garbage") => 5,
                    (_, "garbage") => 1,
                    (_, "header") | (_, "key") => 3,
                    _ => 10,
                }
            };
            let names = ["replay", "skip", "foreign", "adflip", "adtrunc", "adext", "adpresence", "flip", "truncate", "extend", "header", "key", "garbage", "shortbuf", "shortforged"];
            for n in names.iter() {
                let mut ww = w(n);
                if *n == "replay" && self.delivered.is_empty() {
                    ww = 0;
                }
                if *n == "skip" && pending.len() < 2 {
                    ww = 0;
                }
                if (*n == "adflip" || *n == "adtrunc") && adlen == 0 {
                    ww = 0;
                }
                if (*n == "shortbuf" || *n == "shortforged") && (!matches!(self.rx, Rx::Classic(_)) || clen <= 17) {
                    ww = 0;
                }
                if (*n == "header" || *n == "key") && (!self.delivered.is_empty() || !matches!(self.items.first(), Some(Item::Packet(_)))) {
                    ww = 0;
                }
                kinds.push(ww);
            }
            if kinds.iter().all(|x| *x == 0) {
                return Some(Event::DeliverNext);
            }
            let kind = match names[rng.weighted(&kinds)] {
                "replay" => Wrong::Replay { back: 1 + rng.usize_below(self.delivered.len()) },
                "skip" => Wrong::Skip { ahead: 1 + rng.usize_below(pending.len() - 1) },
                "foreign" => Wrong::Foreign,
                "adflip" => Wrong::AdFlip { bit: rng.usize_below(adlen * 8) },
                "adtrunc" => Wrong::AdTruncate { k: 1 + rng.usize_below(adlen) },
                "adext" => Wrong::AdExtend { k: 1 + rng.usize_below(20) },
                "adpresence" => Wrong::AdPresence,
                "flip" => match rng.below(3) {
                    0 => Wrong::BitFlip { at: Where::TagByte, bit: rng.usize_below(8) },
                    1 => Wrong::BitFlip { at: Where::Body, bit: rng.usize_below(8 * (clen - 17).max(1)) },
                    _ => Wrong::BitFlip { at: Where::Mac, bit: rng.usize_below(128) },
                },
                "truncate" => Wrong::Truncate { k: 1 + rng.usize_below(clen) },
                "extend" => Wrong::Extend { k: 1 + rng.usize_below(33), fill: rng.below(256) as u8 },
                "header" => Wrong::HeaderFlip { bit: rng.usize_below(192) },
                "key" => Wrong::KeyFlip { bit: rng.usize_below(256) },
                "shortbuf" => Wrong::ShortBuffer { k: 1 + rng.usize_below((clen - 17).max(1)) },
                "shortforged" => {
                    let k = if rng.chance(1, 2) { clen - 17 } else { 1 + rng.usize_below((clen - 17).max(1)) };
                    match rng.below(3) {
                        0 => Wrong::ShortForged { k, at: Where::TagByte, bit: rng.usize_below(8) },
                        1 => Wrong::ShortForged { k, at: Where::Body, bit: rng.usize_below(8 * (clen - 17).max(1)) },
                        _ => Wrong::ShortForged { k, at: Where::Mac, bit: rng.usize_below(128) },
                    }
                }
                _ => Wrong::Garbage { len: rng.usize_below(2 * 17 + 65), kind: rng.below(9) as u8 },
            };
            let extra = if matches!(self.rx, Rx::Classic(_)) && !matches!(kind, Wrong::AdPresence | Wrong::ShortBuffer { .. } | Wrong::ShortForged { .. } | Wrong::HeaderFlip { .. } | Wrong::KeyFlip { .. }) && rng.chance(1, 5) { 1 + rng.usize_below(40) } else { 0 };
            let restore = rng.chance(1, 4);
            return Some(Event::DeliverWrong { kind, extra, restore });
        }
        self.last_was_special = false;
        Some(Event::DeliverNext)
    }

    fn step(&mut self, ev: &Event, out: &mut Out) {
        match ev {
            Event::Push { mlen, ad, tag, fill } => {
                let msg = pattern(*fill, *mlen);
                let adv: Option<Vec<u8>> = ad.map(|n| pattern(*fill + 7, n));
                let before_counter = self.tx_parts().1[..4].to_vec();
                // dryoc
                let r = guarded(|| match &mut self.tx {
                    Tx::Classic(s) => {
                        let mut ct = vec![0x5Au8; msg.len() + 17]; // a re-used (dirty) chunk buffer
                        ss::crypto_secretstream_xchacha20poly1305_push(s, &mut ct, &msg, adv.as_deref(), *tag).map(|_| ct)
                    }
                    Tx::Object(o) => o.push_to_vec(&msg, adv.as_ref(), Tag::from_bits_retain(*tag)),
                });
                out.op();
                let ct = match r {
                    Ok(Ok(ct)) => ct,
                    Ok(Err(e)) => {
                        out.note(&format!("push failed: {:?}", e));
                        out.harness_error(format!("push returned Err: {:?}", e));
                        return;
                    }
                    Err((l, m)) => {
                        out.note("push unwound");
                        out.harness_error(format!("push unwound: {} at {}", m, l));
                        return;
                    }
                };
                // libsodium, same input
                let rct = sodium::push(&mut self.ref_tx, &msg, adv.as_deref(), *tag);
                let tc = tag_class(*tag);
                out.shape(&format!("P{}{}{}", tc, mlen % 16, ad.map(|a| (a % 16) as i32).unwrap_or(-1)));
                out.cell(&format!("push|{}|{}|{}|{}|{:?}", self.cfg.counter.name(), tc, mlen % 16, ad.map(|a| (a % 16) as i32).unwrap_or(-1), self.cfg.tx));
                out.note(&format!("push mlen={} ad={:?} tag={} ct={:016x}", mlen, ad, tag, crate::kit::prng::fnv1a(&ct)));
                if ct != rct {
                    out.violate(
                        "C03",
                        "c03.ct_lockstep",
                        site(&[("flavour", &format!("{:?}", self.cfg.tx)), ("tag", tc), ("counter", self.cfg.counter.name())]),
                        format!("ciphertext of push(mlen={}, ad={:?}, tag={:#04x}) differs from libsodium's for the same state and input", mlen, ad, tag),
                    );
                }
                let (k, n) = self.tx_parts();
                if k != self.ref_tx.k || n != self.ref_tx.nonce {
                    out.violate(
                        "C03",
                        "c03.state_lockstep_tx",
                        site(&[("flavour", &format!("{:?}", self.cfg.tx)), ("event", "push"), ("counter", self.cfg.counter.name())]),
                        format!("push state differs from libsodium's after push: dryoc nonce {} / libsodium nonce {}", hex(&n), hex(&self.ref_tx.nonce)),
                    );
                }
                if before_counter == [0xff, 0xff, 0xff, 0xff] {
                    out.probe("tx.counter_wrap");
                    self.last_was_special = true;
                }
                if tag & 2 == 2 {
                    out.probe("tx.rekey_tag");
                }
                if *tag > 3 {
                    out.probe("tx.any_tag_byte");
                }
                // the foreign sender pushes its own message of the same length (same AD and tag) on
                // its own stream: whatever the two streams share, this is never the genuine packet
                let mut fmsg = msg.clone();
                if let Some(b) = fmsg.first_mut() {
                    *b ^= 0x55;
                }
                let mut fct = vec![0u8; msg.len() + 17];
                let _ = ss::crypto_secretstream_xchacha20poly1305_push(&mut self.foreign, &mut fct, &fmsg, adv.as_deref(), *tag);
                self.packets.push(Pkt { ct, ad: adv, msg, tag: *tag, foreign_ct: fct });
                self.items.push(Item::Packet(self.packets.len() - 1));
            }
            Event::RekeyBoth => {
                match &mut self.tx {
                    Tx::Classic(s) => ss::crypto_secretstream_xchacha20poly1305_rekey(s),
                    Tx::Object(o) => o.rekey(),
                }
                sodium::rekey(&mut self.ref_tx);
                self.items.push(Item::Rekey);
                out.op();
                out.shape("R");
                out.probe("tx.explicit_rekey");
                out.note("rekey both");
                let (k, n) = self.tx_parts();
                if k != self.ref_tx.k || n != self.ref_tx.nonce {
                    out.violate("C03", "c03.state_lockstep_tx", site(&[("flavour", &format!("{:?}", self.cfg.tx)), ("event", "rekey"), ("counter", self.cfg.counter.name())]), "push state differs from libsodium's after explicit rekey".into());
                }
            }
            Event::DeliverNext => {
                out.shape("N");
                self.deliver_next(out, false);
            }
            Event::DeliverWrong { kind, extra, restore } => {
                self.consume_markers(out);
                let pending = self.pending_packets();
                if pending.is_empty() {
                    return;
                }
                let next = self.packets[pending[0]].clone();
                let mut ct = next.ct.clone();
                let mut ad = next.ad.clone();
                let mut fresh_rx: Option<Rx> = None;
                let mut fired = true;
                let mut shortfall = 0usize;
                let mut forged = false;
                let flipbit = |buf: &mut [u8], bit: usize| -> bool {
                    if buf.is_empty() {
                        return false;
                    }
                    let b = bit % (buf.len() * 8);
                    buf[b / 8] ^= 1 << (b % 8);
                    true
                };
                match kind {
                    Wrong::Replay { back } => {
                        if self.delivered.is_empty() {
                            fired = false;
                        } else {
                            let j = self.delivered[self.delivered.len() - 1 - (back - 1) % self.delivered.len()];
                            ct = self.packets[j].ct.clone();
                            ad = self.packets[j].ad.clone();
                        }
                    }
                    Wrong::Skip { ahead } => {
                        if pending.len() < 2 {
                            fired = false;
                        } else {
                            let j = pending[1 + (ahead - 1) % (pending.len() - 1)];
                            ct = self.packets[j].ct.clone();
                            ad = self.packets[j].ad.clone();
                        }
                    }
                    Wrong::Foreign => ct = next.foreign_ct.clone(),
                    Wrong::AdFlip { bit } => {
                        fired = match ad.as_mut() {
                            Some(a) => flipbit(a, *bit),
                            None => false,
                        }
                    }
                    Wrong::AdTruncate { k } => match ad.as_mut() {
                        Some(a) if !a.is_empty() => {
                            let k = (*k).clamp(1, a.len());
                            let n = a.len() - k;
                            a.truncate(n);
                        }
                        _ => fired = false,
                    },
                    Wrong::AdExtend { k } => {
                        let mut a = ad.clone().unwrap_or_default();
                        a.extend_from_slice(&pattern(99, (*k).max(1)));
                        ad = Some(a);
                    }
                    Wrong::AdPresence => {
                        // present <-> absent; absent and empty are the same AD (not a fault)
                        ad = match ad {
                            Some(_) => None,
                            None => Some(Vec::new()),
                        };
                    }
                    Wrong::BitFlip { at, bit } => {
                        let n = ct.len();
                        fired = match at {
                            Where::TagByte => flipbit(&mut ct[..1], *bit),
                            Where::Body => flipbit(&mut ct[1..n - 16], *bit),
                            Where::Mac => flipbit(&mut ct[n - 16..], *bit),
                        };
                    }
                    Wrong::Truncate { k } => {
                        let k = (*k).clamp(1, ct.len());
                        let n = ct.len() - k;
                        ct.truncate(n);
                    }
                    Wrong::Extend { k, fill } => {
                        let ext = match fill % 3 {
                            0 => vec![0u8; (*k).max(1)],
                            1 => vec![0xff; (*k).max(1)],
                            _ => pattern(*fill as u64 * 4, (*k).max(1)),
                        };
                        ct.extend_from_slice(&ext);
                    }
                    Wrong::HeaderFlip { bit } | Wrong::KeyFlip { bit } => {
                        // a pull stream initialised from a corrupted header / key
                        // is handed the first packet of the stream
                        if !self.delivered.is_empty() || !matches!(self.items.first(), Some(Item::Packet(_))) {
                            fired = false;
                        } else {
                            let mut h = self.header;
                            let mut k = self.key;
                            if matches!(kind, Wrong::HeaderFlip { .. }) {
                                flipbit(&mut h, *bit);
                            } else {
                                flipbit(&mut k, *bit);
                            }
                            let c = self.cfg.counter.value();
                            fresh_rx = Some(match self.cfg.rx {
                                RxFlavour::Classic => {
                                    let mut st = ss::State::new();
                                    ss::crypto_secretstream_xchacha20poly1305_init_pull(&mut st, &h, &k);
                                    Rx::Classic(with_counter(st.verif_parts(), c))
                                }
                                _ => {
                                    let s: DryocStream<Pull> = DryocStream::init_pull(&k, &h);
                                    Rx::Object(DryocStream::verif_from_state(with_counter(s.verif_state().verif_parts(), c)))
                                }
                            });
                        }
                    }
                    Wrong::ShortBuffer { k } => {
                        // only the classic function takes a caller-sized buffer
                        if !matches!(self.rx, Rx::Classic(_)) || ct.len() <= 17 {
                            fired = false;
                        } else {
                            shortfall = (*k).clamp(1, ct.len() - 17);
                        }
                    }
                    Wrong::ShortForged { k, at, bit } => {
                        if !matches!(self.rx, Rx::Classic(_)) || ct.len() <= 17 {
                            fired = false;
                        } else {
                            let n = ct.len();
                            fired = match at {
                                Where::TagByte => flipbit(&mut ct[..1], *bit),
                                Where::Body => flipbit(&mut ct[1..n - 16], *bit),
                                Where::Mac => flipbit(&mut ct[n - 16..], *bit),
                            };
                            shortfall = (*k).clamp(1, n - 17);
                            forged = true;
                        }
                    }
                    Wrong::Garbage { len, kind } => {
                        ct = match kind % 3 {
                            0 => vec![0u8; *len],
                            1 => vec![0xff; *len],
                            _ => pattern(*kind as u64 * 4 + 1000, *len),
                        };
                    }
                }
                if !fired {
                    return; // inapplicable in this state: no-op
                }
                out.fault(kind.kind());
                if *extra > 0 && shortfall == 0 {
                    out.fault("oversize.buffer");
                }
                out.shape(&format!("W{}", kind.kind()));
                let eff = |a: &Option<Vec<u8>>| a.clone().unwrap_or_default();
                let identical = fresh_rx.is_none() && shortfall == 0 && ct == next.ct && eff(&ad) == eff(&next.ad);
                let flavour = self.cfg.rx;
                let rx_before = self.rx.clone();
                let ref_before = self.ref_rx;
                let obs = match fresh_rx.as_mut() {
                    Some(f) => Self::do_pull(f, flavour, &ct, ad.as_deref()),
                    None => Self::do_pull_short(&mut self.rx, flavour, &ct, ad.as_deref(), shortfall, if shortfall == 0 { *extra } else { 0 }),
                };
                out.op();
                self.judge_common(&obs, ct.len(), kind.kind(), out);
                if shortfall > 0 {
                    // libsodium has no buffer-length parameter: nothing to compare the verdict with
                    let accepted = matches!(obs.res, PullResult::Accept(..));
                    out.note(&format!("deliver next with a buffer {} bytes short -> {}", shortfall, if accepted { "accept" } else { "reject" }));
                    if accepted {
                        out.violate("C03", "c03.reject_wrong", site(&[("flavour", flavour.name()), ("kind", kind.kind())]), format!("a pull into a message buffer {} bytes too short was accepted", shortfall));
                        if forged {
                            out.violate("C02", "c02.reject_corrupted", site(&[("suite", "stream"), ("receiver", flavour.name()), ("fault", kind.kind()), ("component", "-")]), format!("a corrupted stream delivery (kind {:?}) was accepted", kind));
                        }
                    } else if matches!(obs.res, PullResult::Reject) && (self.rx.parts() != rx_before.parts() || !rx_eq(&self.rx, &rx_before)) {
                        out.violate("C03", "c03.state_unchanged_on_reject", site(&[("flavour", flavour.name()), ("kind", kind.kind())]), format!("pull state changed across a pull that was refused because the message buffer was {} bytes too short", shortfall));
                    } else {
                        out.probe("wrong.rejected.short.buffer");
                        self.last_reject = Some(kind.kind());
                    }
                    return;
                }
                self.judge_errtext(&obs, kind.kind(), ct.len(), ad.as_ref().map(|a| a.len()).unwrap_or(0), out);
                out.cell(&format!("wrong|{}|{}|{}|{}", self.cfg.counter.name(), kind.kind(), tag_class(next.tag), flavour.name()));
                let accepted = matches!(obs.res, PullResult::Accept(..));
                out.note(&format!("deliver wrong {} identical={} -> {}", kind.kind(), identical, match &obs.res { PullResult::Accept(..) => "accept", PullResult::Reject => "reject", PullResult::Unwind(..) => "unwind" }));
                if identical {
                    // a degenerate "fault" (e.g. absent vs empty AD): it *is* the next packet
                    out.probe("wrong.degenerate_identical");
                    if accepted {
                        let _ = sodium::pull(&mut self.ref_rx, &ct, ad.as_deref());
                        self.cursor += 1;
                        self.delivered.push(pending[0]);
                        self.check_rx_lockstep(out, "pull");
                    } else if *extra == 0 {
                        out.violate("C03", "c03.accept_next", site(&[("flavour", flavour.name()), ("tag", tag_class(next.tag)), ("preceded_by", "none")]), format!("a delivery byte-identical to the genuine next packet (kind {}) was not accepted", kind.kind()));
                    }
                    return;
                }
                if fresh_rx.is_some() {
                    if accepted {
                        out.violate("C02", "c02.reject_corrupted", site(&[("suite", "stream"), ("receiver", flavour.name()), ("fault", kind.kind()), ("component", "-")]), format!("a pull stream initialised from a corrupted {} accepted the first packet", if matches!(kind, Wrong::HeaderFlip { .. }) { "header" } else { "key" }));
                        out.violate("C03", "c03.reject_wrong", site(&[("flavour", flavour.name()), ("kind", kind.kind())]), "pull stream initialised from corrupted header/key accepted the first packet".into());
                    } else {
                        out.probe("deliver.corrupted.rejected");
                    }
                    return;
                }
                // libsodium's verdict on the same bytes
                let mut ref_copy = ref_before;
                let ref_accept = sodium::pull(&mut ref_copy, &ct, ad.as_deref()).is_some();
                if accepted {
                    out.violate("C03", "c03.reject_wrong", site(&[("flavour", flavour.name()), ("kind", kind.kind())]), format!("a delivery that is not the genuine next packet (kind {:?}) was accepted", kind));
                    out.violate("C02", "c02.reject_corrupted", site(&[("suite", "stream"), ("receiver", flavour.name()), ("fault", kind.kind()), ("component", "-")]), format!("a corrupted stream delivery (kind {:?}) was accepted", kind));
                } else {
                    out.probe("deliver.corrupted.rejected");
                    out.probe(&format!("wrong.rejected.{}", kind.kind()));
                    if matches!(obs.res, PullResult::Reject) {
                        // state must be exactly as it was
                        if self.rx.parts() != rx_before.parts() || !rx_eq(&self.rx, &rx_before) {
                            out.violate(
                                "C03",
                                "c03.state_unchanged_on_reject",
                                site(&[("flavour", flavour.name()), ("kind", kind.kind())]),
                                format!("pull state changed across a rejected delivery (kind {:?}): nonce {} -> {}", kind, hex(&rx_before.parts().1), hex(&self.rx.parts().1)),
                            );
                        }
                    }
                    self.last_reject = Some(kind.kind());
                    if *restore {
                        out.fault("rollback_to_cloned_state");
                        self.rx = rx_before;
                    }
                }
                if accepted != ref_accept {
                    out.violate("C03", "c03.verdict_parity", site(&[("kind", kind.kind())]), format!("dryoc {} but libsodium {} the same bytes (kind {:?})", if accepted { "accepts" } else { "rejects" }, if ref_accept { "accepts" } else { "rejects" }, kind));
                }
            }
            Event::Drain => {
                out.shape("Drain");
                self.consume_markers(out);
                let remaining = self.pending_packets().len();
                let mut steps = 0;
                let mut ok = 0;
                while steps < remaining {
                    steps += 1;
                    if self.deliver_next(out, true) {
                        ok += 1;
                    } else {
                        break;
                    }
                }
                self.consume_markers(out);
                out.note(&format!("drain remaining={} accepted={}", remaining, ok));
                out.probe("drain");
                if ok == remaining && remaining > 0 {
                    out.probe("drain.all_accepted");
                }
            }
        }
    }

    fn shrink(ev: &Event) -> Vec<Event> {
        match ev {
            Event::Push { mlen, ad, tag, fill } => {
                let mut v = Vec::new();
                if *mlen > 0 {
                    v.push(Event::Push { mlen: 0, ad: *ad, tag: *tag, fill: *fill });
                    v.push(Event::Push { mlen: mlen / 2, ad: *ad, tag: *tag, fill: *fill });
                }
                if ad.is_some() {
                    v.push(Event::Push { mlen: *mlen, ad: None, tag: *tag, fill: *fill });
                }
                if *tag > 4 {
                    v.push(Event::Push { mlen: *mlen, ad: *ad, tag: 4, fill: *fill });
                }
                if *tag != 0 {
                    v.push(Event::Push { mlen: *mlen, ad: *ad, tag: 0, fill: *fill });
                }
                v
            }
            Event::DeliverWrong { kind, extra, restore } => {
                let extra = *extra;
                let restore = *restore;
                let mk = |k: Wrong| Event::DeliverWrong { kind: k, extra, restore };
                match kind {
                    Wrong::BitFlip { at, bit } if *bit > 0 => vec![mk(Wrong::BitFlip { at: *at, bit: 0 })],
                    Wrong::AdFlip { bit } if *bit > 0 => vec![mk(Wrong::AdFlip { bit: 0 })],
                    Wrong::ShortForged { k, at, bit } if *bit > 0 => vec![mk(Wrong::ShortForged { k: *k, at: *at, bit: 0 })],
                    Wrong::Truncate { k } if *k > 1 => vec![mk(Wrong::Truncate { k: 1 }), mk(Wrong::Truncate { k: k / 2 })],
                    Wrong::Extend { k, fill } if *k > 1 || *fill != 0 => vec![mk(Wrong::Extend { k: 1, fill: 0 })],
                    Wrong::Garbage { len, kind } if *len > 0 || *kind != 0 => vec![mk(Wrong::Garbage { len: 0, kind: 0 }), mk(Wrong::Garbage { len: len / 2, kind: *kind }), mk(Wrong::Garbage { len: len.saturating_sub(1), kind: *kind })],
                    Wrong::Replay { back } if *back > 1 => vec![mk(Wrong::Replay { back: 1 })],
                    Wrong::Skip { ahead } if *ahead > 1 => vec![mk(Wrong::Skip { ahead: 1 })],
                    Wrong::HeaderFlip { bit } if *bit > 0 => vec![mk(Wrong::HeaderFlip { bit: 0 })],
                    Wrong::KeyFlip { bit } if *bit > 0 => vec![mk(Wrong::KeyFlip { bit: 0 })],
                    _ => vec![],
                }
            }
            _ => vec![],
        }
    }

    fn crash_site(cfg: &Config, ev: &Event) -> Site {
        let fk = match ev {
            Event::DeliverWrong { kind, .. } => kind.kind(),
            Event::DeliverNext | Event::Drain => "none",
            _ => "push",
        };
        site(&[("receiver", &format!("stream.{}", cfg.rx.name())), ("fault", fk)])
    }

    fn prop_of(cfg: &Config) -> String {
        cfg.prop.clone()
    }
}

fn rx_eq(a: &Rx, b: &Rx) -> bool {
    match (a, b) {
        (Rx::Classic(x), Rx::Classic(y)) => x == y,
        (Rx::Object(x), Rx::Object(y)) => x.verif_state() == y.verif_state(),
        _ => false,
    }
}

impl Drop for StreamWorld {
    fn drop(&mut self) {
        uninstall_rng();
    }
}
