//! Verifier world (C04 only): a signer / authenticator / registrar node emits
//! signed messages, MACs and password-hash strings; the faulty channel or
//! store delivers them to every verifying / parsing entry point. Only
//! totality is judged (returns, no unwind, no dead worker, bounded
//! allocation) — accept/reject correctness belongs to C06/C07.

use super::boxw::{install_rng, uninstall_rng};
use crate::kit::prng::{pattern, Rng};
use crate::kit::*;
use dryoc::classic::crypto_auth::*;
use dryoc::classic::crypto_onetimeauth::*;
use dryoc::classic::crypto_pwhash::*;
use dryoc::classic::crypto_sign::*;
use serde::{Deserialize, Serialize};

#[derive(Clone, Copy, Debug, Serialize, Deserialize, PartialEq, Eq)]
pub enum Kind {
    SignOpen,
    SignVerifyDetached,
    SignObjFromBytesVerify,
    SignIncFinalVerify,
    SignObjIncVerify,
    AuthVerify,
    AuthObjVerify,
    OtaVerify,
    OtaObjVerify,
    PwStrVerify,
    PwStrNeedsRehash,
    PwObjFromString,
    /// build N: signed message parsed into the protected heap containers
    SignObjFromBytesHeap,
}

impl Kind {
    pub fn name(&self) -> &'static str {
        match self {
            Kind::SignOpen => "crypto_sign_open",
            Kind::SignVerifyDetached => "crypto_sign_verify_detached",
            Kind::SignObjFromBytesVerify => "SignedMessage::from_bytes+verify",
            Kind::SignIncFinalVerify => "crypto_sign_final_verify",
            Kind::SignObjIncVerify => "IncrementalSigner::verify",
            Kind::AuthVerify => "crypto_auth_verify",
            Kind::AuthObjVerify => "Auth::compute_and_verify",
            Kind::OtaVerify => "crypto_onetimeauth_verify",
            Kind::OtaObjVerify => "OnetimeAuth::compute_and_verify",
            Kind::PwStrVerify => "crypto_pwhash_str_verify",
            Kind::PwStrNeedsRehash => "crypto_pwhash_str_needs_rehash",
            Kind::PwObjFromString => "PwHash::from_string+verify+to_string",
            Kind::SignObjFromBytesHeap => "SignedMessage<HeapByteArray,HeapBytes>::from_bytes+verify",
        }
    }
    fn is_string(&self) -> bool {
        matches!(self, Kind::PwStrVerify | Kind::PwStrNeedsRehash | Kind::PwObjFromString)
    }
    /// length of the fixed authenticator that precedes the message on the wire
    fn overhead(&self) -> usize {
        match self {
            Kind::SignOpen | Kind::SignVerifyDetached | Kind::SignObjFromBytesVerify | Kind::SignIncFinalVerify | Kind::SignObjIncVerify | Kind::SignObjFromBytesHeap => 64,
            Kind::AuthVerify | Kind::AuthObjVerify => 32,
            Kind::OtaVerify | Kind::OtaObjVerify => 16,
            _ => 0,
        }
    }
    /// can the entry point be handed a wire of arbitrary length?
    fn combined(&self) -> bool {
        matches!(self, Kind::SignOpen | Kind::SignObjFromBytesVerify | Kind::SignObjFromBytesHeap) || self.is_string()
    }
}

/// Boundary values of Ed25519's scalar (mod L) and field (mod p) arithmetic, little endian.
pub const FIELD_VALUES: u8 = 13;
const ED_L: [u8; 32] = [0xed, 0xd3, 0xf5, 0x5c, 0x1a, 0x63, 0x12, 0x58, 0xd6, 0x9c, 0xf7, 0xa2, 0xde, 0xf9, 0xde, 0x14, 0, 0, 0, 0, 0, 0, 0, 0, 0, 0, 0, 0, 0, 0, 0, 0x10];

fn add_le(a: &[u8; 32], b: &[u8; 32]) -> [u8; 32] {
    let mut r = [0u8; 32];
    let mut c = 0u16;
    for i in 0..32 {
        let t = a[i] as u16 + b[i] as u16 + c;
        r[i] = t as u8;
        c = t >> 8;
    }
    r
}

fn small(n: u8) -> [u8; 32] {
    let mut r = [0u8; 32];
    r[0] = n;
    r
}

fn neg1() -> [u8; 32] {
    [0xff; 32] // -1 mod 2^256: adding it subtracts one
}

pub fn field_value(v: u8, cur: &[u8; 32]) -> [u8; 32] {
    let mut p = [0xffu8; 32];
    p[0] = 0xed;
    p[31] = 0x7f;
    match v % FIELD_VALUES {
        0 => ED_L,
        1 => add_le(&ED_L, &neg1()),
        2 => add_le(&ED_L, &small(1)),
        3 => [0u8; 32],
        4 => [0xff; 32],
        5 => p,
        6 => add_le(&p, &neg1()),
        7 => add_le(&p, &small(1)),
        8 => {
            let mut r = [0xffu8; 32];
            r[31] = 0x7f;
            r
        }
        9 => {
            let mut r = [0u8; 32];
            r[31] = 0x10;
            r
        }
        10 => small(1),
        // the current value plus L (the classic malleated S) and plus 2L
        11 => add_le(cur, &ED_L),
        _ => add_le(&add_le(cur, &ED_L), &ED_L),
    }
}

pub const KINDS: [Kind; 12] = [
    Kind::SignOpen,
    Kind::SignVerifyDetached,
    Kind::SignObjFromBytesVerify,
    Kind::SignIncFinalVerify,
    Kind::SignObjIncVerify,
    Kind::AuthVerify,
    Kind::AuthObjVerify,
    Kind::OtaVerify,
    Kind::OtaObjVerify,
    Kind::PwStrVerify,
    Kind::PwStrNeedsRehash,
    Kind::PwObjFromString,
];

#[derive(Clone, Debug, Serialize, Deserialize, PartialEq)]
pub enum Fault {
    None,
    Flip { bit: usize },
    Truncate { k: usize },
    Extend { k: usize, fill: u8 },
    Garbage { len: usize, kind: u8 },
    Splice { at: usize, n: usize, fill: u64 },
    // store faults on `$`-separated strings
    SegDrop { i: usize },
    SegDup { i: usize },
    SegSwap { i: usize, j: usize },
    SegEmpty { i: usize },
    CharReplace { pos: usize, ch: u8 },
    NumReplace { which: u8, value: u64 },
    WrongPassword,
    /// n copies of a multi-byte UTF-8 character inserted at a byte position (snapped to a char boundary)
    UnicodeInsert { pos: usize, n: usize, ch: u8 },
    /// one ASCII character from the grammar's alphabet (or a space / letter) *inserted*
    CharInsert { pos: usize, ch: u8 },
    /// the verifier is handed a corrupted / special public key
    /// (0 zeros, 1 0xff.., 2 identity, 3 y=-1 (order 2), 4 order-4 point, 5 non-canonical y=p, 6 random, 7 one flipped bit)
    PublicKey { kind: u8, bit: usize },
    /// signature kinds: one 32-byte half of the signature (0 = R, 1 = S) is replaced by a
    /// boundary value of the scalar / field arithmetic (see `field_value`)
    FieldValue { half: u8, value: u8 },
}

impl Fault {
    fn kind(&self) -> &'static str {
        match self {
            Fault::None => "none",
            Fault::Flip { .. } => "flip",
            Fault::Truncate { .. } => "truncate",
            Fault::Extend { .. } => "extend",
            Fault::Garbage { .. } => "garbage",
            Fault::Splice { .. } => "splice",
            Fault::SegDrop { .. } => "seg.drop",
            Fault::SegDup { .. } => "seg.dup",
            Fault::SegSwap { .. } => "seg.swap",
            Fault::SegEmpty { .. } => "seg.empty",
            Fault::CharReplace { .. } => "char.replace",
            Fault::NumReplace { .. } => "num.replace",
            Fault::WrongPassword => "wrong.password",
            Fault::UnicodeInsert { .. } => "unicode.insert",
            Fault::CharInsert { .. } => "char.insert",
            Fault::PublicKey { .. } => "public.key",
            Fault::FieldValue { .. } => "field.value",
        }
    }
}

#[derive(Clone, Debug, Serialize, Deserialize)]
pub struct Config {
    pub prop: String,
    pub kind: Kind,
    pub rseed: u64,
    pub argon2i: bool,
    pub deliveries: usize,
    /// one-time-auth kinds only: n > 0 = the verifier's key and the message come from the
    /// Poly1305 carry-vector corpus (chunk::special_operands); the delivered tag is arbitrary
    #[serde(default)]
    pub special: u8,
}

#[derive(Clone, Debug, Serialize, Deserialize)]
pub enum Event {
    Emit { len: usize, fill: u64 },
    Deliver {
        fault: Fault,
        /// `crypto_sign_open` only: how the caller sized its message buffer — 0 from the wire
        /// length, 1 for the original message whatever arrived, 2 one byte short, 3 seven bytes
        /// too long, 4 empty
        #[serde(default)]
        buf: u8,
    },
}

pub struct VerifierWorld {
    /// buffer policy of the delivery in flight (see `Event::Deliver::buf`)
    bufpol: std::cell::Cell<u8>,
    cfg: Config,
    sign_pk: [u8; 32],
    sign_sk: [u8; 64],
    mac_key: [u8; 32],
    /// the artefact on the wire / in the store: authenticator || message, or the string
    wire: Option<Vec<u8>>,
    msg: Vec<u8>,
    plan: Vec<Event>,
    planned: bool,
}

/// The cost guard: the effective (m_cost, t_cost) dryoc's parser would end up
/// with (same `$` / `,` splitting, last assignment wins). None = dryoc's
/// parser fails on the numbers, nothing would be computed.
fn cost_params(s: &str) -> Option<(Option<u32>, Option<u32>)> {
    let mut m = None;
    let mut t = None;
    for seg in s.split('$') {
        if seg.is_empty() || seg.starts_with("argon2") || seg.starts_with("v=") {
            continue;
        }
        if seg.contains("m=") && seg.contains("t=") && seg.contains("p=") {
            for p in seg.split(',') {
                if let Some(x) = p.strip_prefix("m=") {
                    m = Some(x.parse::<u32>().ok()?);
                } else if let Some(x) = p.strip_prefix("t=") {
                    t = Some(x.parse::<u32>().ok()?);
                }
            }
        }
    }
    Some((m, t))
}

fn affordable(s: &str) -> bool {
    match cost_params(s) {
        Some((Some(m), Some(t))) => m <= 1024 && t <= 4,
        _ => true, // parser will refuse before computing
    }
}

impl VerifierWorld {
    fn emit(&mut self, len: usize, fill: u64) {
        let msg = pattern(fill, len);
        let k = self.cfg.kind;
        let wire = match k {
            Kind::SignOpen => {
                let mut sm = vec![0x5Au8; len + 64];
                crypto_sign(&mut sm, &msg, &self.sign_sk).expect("sign");
                sm
            }
            Kind::SignVerifyDetached => {
                let mut sig = [0u8; 64];
                crypto_sign_detached(&mut sig, &msg, &self.sign_sk).expect("sign");
                let mut w = sig.to_vec();
                w.extend_from_slice(&msg);
                w
            }
            Kind::SignObjFromBytesVerify | Kind::SignObjFromBytesHeap => {
                let kp: dryoc::sign::SigningKeyPair<dryoc::sign::PublicKey, dryoc::sign::SecretKey> = dryoc::sign::SigningKeyPair::from_slices(&self.sign_pk, &self.sign_sk).expect("kp");
                let sm: dryoc::sign::SignedMessage<dryoc::sign::Signature, Vec<u8>> = kp.sign(msg.clone()).expect("sign");
                sm.to_vec()
            }
            Kind::SignIncFinalVerify | Kind::SignObjIncVerify => {
                let mut st = crypto_sign_init();
                crypto_sign_update(&mut st, &msg);
                let mut sig = [0u8; 64];
                crypto_sign_final_create(st, &mut sig, &self.sign_sk).expect("sign");
                let mut w = sig.to_vec();
                w.extend_from_slice(&msg);
                w
            }
            Kind::AuthVerify | Kind::AuthObjVerify => {
                let mut mac = [0u8; 32];
                crypto_auth(&mut mac, &msg, &self.mac_key);
                let mut w = mac.to_vec();
                w.extend_from_slice(&msg);
                w
            }
            Kind::OtaVerify | Kind::OtaObjVerify => {
                if let Some((k, m)) = super::chunk::special_operands(self.cfg.special) {
                    // the verifier's own computation is what is exercised: any tag will do
                    self.mac_key = k;
                    let mut w = vec![0xAAu8; 16];
                    w.extend_from_slice(&m);
                    self.msg = m;
                    self.wire = Some(w);
                    return;
                }
                let mut mac = [0u8; 16];
                crypto_onetimeauth(&mut mac, &msg, &self.mac_key);
                let mut w = mac.to_vec();
                w.extend_from_slice(&msg);
                w
            }
            Kind::PwStrVerify | Kind::PwStrNeedsRehash => {
                if self.cfg.argon2i {
                    // the string API only emits argon2id; an argon2i string of the
                    // same grammar is assembled from the raw hash function
                    use base64::Engine as _;
                    let salt = dryoc::rng::randombytes_buf(16);
                    let mut h = [0u8; 32];
                    crypto_pwhash(&mut h, &msg, &salt, 3, 8192, PasswordHashAlgorithm::Argon2i13).expect("pwhash argon2i");
                    let e = base64::engine::general_purpose::STANDARD_NO_PAD;
                    format!("$argon2i$v=19$m=8,t=3,p=1${}${}", e.encode(&salt), e.encode(h)).into_bytes()
                } else {
                    crypto_pwhash_str(&msg, 1, 8192).expect("pwhash_str").into_bytes()
                }
            }
            Kind::PwObjFromString => {
                let cfg = dryoc::pwhash::Config::interactive().with_opslimit(1).with_memlimit(8192).with_salt_length(8 + (fill % 40) as usize).with_hash_length(16 + (fill % 50) as usize);
                let h: dryoc::pwhash::VecPwHash = dryoc::pwhash::PwHash::hash(&msg, cfg).expect("hash");
                h.to_string().into_bytes()
            }
        };
        self.msg = msg;
        self.wire = Some(wire);
    }

    fn special_pk(&self, kind: u8, bit: usize) -> [u8; 32] {
        let mut p = [0u8; 32];
        match kind % 8 {
            0 => {}
            1 => p = [0xff; 32],
            2 => p[0] = 1,
            3 => {
                p = [0xff; 32];
                p[0] = 0xec;
                p[31] = 0x7f;
            }
            4 => p[31] = 0x80,
            5 => {
                p = [0xff; 32];
                p[0] = 0xed;
                p[31] = 0x7f;
            }
            6 => p = pattern(bit as u64 * 4 + 2, 32).try_into().unwrap(),
            _ => {
                p = self.sign_pk;
                let b = bit % 256;
                p[b / 8] ^= 1 << (b % 8);
            }
        }
        p
    }

    fn corrupt(&self, fault: &Fault, out: &mut Out) -> (Vec<u8>, bool) {
        let mut w = self.wire.clone().unwrap_or_default();
        let k = self.cfg.kind;
        let oh = k.overhead();
        let mut wrong_pw = false;
        let mut fired = true;
        // for fixed-array entry points length faults act on the message part only
        let lo = if k.combined() { 0 } else { oh.min(w.len()) };
        match fault {
            Fault::None => fired = false,
            Fault::Flip { bit } => {
                if w.is_empty() {
                    fired = false;
                } else {
                    let b = bit % (w.len() * 8);
                    w[b / 8] ^= 1 << (b % 8);
                }
            }
            Fault::Truncate { k } => {
                let avail = w.len() - lo;
                let k = (*k).min(avail);
                fired = k > 0;
                let n = w.len() - k;
                w.truncate(n);
            }
            Fault::Extend { k, fill } => {
                fired = *k > 0;
                let ext = match fill % 3 {
                    0 => vec![0u8; *k],
                    1 => vec![0xff; *k],
                    _ => pattern(*fill as u64 * 4, *k),
                };
                w.extend_from_slice(&ext);
            }
            Fault::Garbage { len, kind } => {
                let g = match kind % 4 {
                    0 => vec![0u8; *len],
                    1 => vec![0xff; *len],
                    2 => pattern(*kind as u64 * 4 + 1000, *len),
                    _ => {
                        const AB: &[u8] = b"$argon2id,mtpv=0123456789AZaz+/";
                        pattern(*kind as u64 * 4 + 1000, *len).iter().map(|b| AB[(*b as usize) % AB.len()]).collect()
                    }
                };
                if k.combined() {
                    w = g;
                } else {
                    w.truncate(lo);
                    w.extend_from_slice(&g);
                }
            }
            Fault::Splice { at, n, fill } => {
                if w.is_empty() || *n == 0 {
                    fired = false;
                } else {
                    let at = at % w.len();
                    let n = (*n).min(w.len() - at);
                    let r = pattern(*fill * 4, n);
                    w[at..at + n].copy_from_slice(&r);
                }
            }
            Fault::WrongPassword => wrong_pw = true,
            Fault::UnicodeInsert { pos, n, ch } => {
                if !k.is_string() {
                    fired = false;
                } else {
                    let mut st = String::from_utf8_lossy(&w).to_string();
                    let mut p = pos % (st.len() + 1);
                    while !st.is_char_boundary(p) {
                        p -= 1;
                    }
                    let c = ['é', '€', '😀', 'ß'][(*ch % 4) as usize];
                    let ins: String = std::iter::repeat(c).take(1 + n % 12).collect();
                    st.insert_str(p, &ins);
                    w = st.into_bytes();
                }
            }
            Fault::CharInsert { pos, ch } => {
                if !k.is_string() {
                    fired = false;
                } else {
                    const AB: &[u8] = b" ,=$xXmtpv019+-";
                    let p = pos % (w.len() + 1);
                    w.insert(p, AB[(*ch as usize) % AB.len()]);
                }
            }
            Fault::PublicKey { .. } => fired = k.overhead() == 64,
            Fault::FieldValue { half, value } => {
                if k.overhead() != 64 || w.len() < 64 {
                    fired = false;
                } else {
                    let at = 32 * (*half as usize % 2);
                    let mut cur = [0u8; 32];
                    cur.copy_from_slice(&w[at..at + 32]);
                    w[at..at + 32].copy_from_slice(&field_value(*value, &cur));
                }
            }
            Fault::SegDrop { .. } | Fault::SegDup { .. } | Fault::SegSwap { .. } | Fault::SegEmpty { .. } | Fault::CharReplace { .. } | Fault::NumReplace { .. } => {
                if !k.is_string() {
                    fired = false;
                } else {
                    let s = String::from_utf8_lossy(&w).to_string();
                    let mut segs: Vec<String> = s.split('$').map(|x| x.to_string()).collect();
                    let n = segs.len().max(1);
                    match fault {
                        Fault::SegDrop { i } => {
                            segs.remove(i % n);
                        }
                        Fault::SegDup { i } => {
                            let x = segs[i % n].clone();
                            segs.insert(i % n, x);
                        }
                        Fault::SegSwap { i, j } => segs.swap(i % n, j % n),
                        Fault::SegEmpty { i } => segs[i % n].clear(),
                        Fault::CharReplace { pos, ch } => {
                            let mut b = s.clone().into_bytes();
                            if !b.is_empty() {
                                let p = pos % b.len();
                                const AB: &[u8] = b"$,=0123456789mtpvAa+/-. \x00\xff";
                                b[p] = AB[(*ch as usize) % AB.len()];
                            }
                            segs = String::from_utf8_lossy(&b).split('$').map(|x| x.to_string()).collect();
                        }
                        Fault::NumReplace { which, value } => {
                            let key = ["m=", "t=", "p=", "v="][(*which % 4) as usize];
                            for seg in segs.iter_mut() {
                                let parts: Vec<String> = seg
                                    .split(',')
                                    .map(|p| if p.starts_with(key) { format!("{}{}", key, value) } else { p.to_string() })
                                    .collect();
                                *seg = parts.join(",");
                            }
                        }
                        _ => {}
                    }
                    w = segs.join("$").into_bytes();
                }
            }
        }
        if fired {
            out.fault(fault.kind());
        }
        (w, wrong_pw)
    }

    /// Hand the delivered bytes to the entry point. Ok(Some(true)) accepted,
    /// Ok(Some(false)) rejected, Ok(None) not called (cost guard).
    fn receive(&self, w: &[u8], wrong_pw: bool, fault: &Fault, out: &mut Out) -> (Result<Option<bool>, (String, String)>, usize) {
        let k = self.cfg.kind;
        let pk = match fault {
            Fault::PublicKey { kind, bit } => self.special_pk(*kind, *bit),
            _ => self.sign_pk,
        };
        let key = self.mac_key;
        let bufpol = self.bufpol.get();
        let orig_len = self.msg.len();
        let oh = k.overhead();
        let password: Vec<u8> = if wrong_pw { b"not the password".to_vec() } else { self.msg.clone() };
        let mut skipped = false;
        crate::kit::alloc::arm();
        let r = guarded(|| -> Option<bool> {
            match k {
                Kind::SignOpen => {
                    let wire_n = w.len().saturating_sub(64);
                    let n = match bufpol {
                        1 => orig_len,
                        2 => wire_n.saturating_sub(1),
                        3 => wire_n + 7,
                        4 => 0,
                        _ => wire_n,
                    };
                    let mut m = vec![0xC3u8; n];
                    Some(crypto_sign_open(&mut m, w, &pk).is_ok())
                }
                Kind::SignVerifyDetached => {
                    let sig: [u8; 64] = w[..64].try_into().unwrap();
                    Some(crypto_sign_verify_detached(&sig, &w[64..], &pk).is_ok())
                }
                Kind::SignObjFromBytesVerify => {
                    let sm: Result<dryoc::sign::SignedMessage<dryoc::sign::Signature, Vec<u8>>, _> = dryoc::sign::SignedMessage::from_bytes(w);
                    match sm {
                        Ok(sm) => {
                            let pkk: dryoc::sign::PublicKey = pk.into();
                            let _ = sm.to_vec();
                            Some(sm.verify(&pkk).is_ok())
                        }
                        Err(_) => Some(false),
                    }
                }
                #[cfg(feature = "nightly")]
                Kind::SignObjFromBytesHeap => {
                    use dryoc::protected::{HeapByteArray, HeapBytes};
                    let sm: Result<dryoc::sign::SignedMessage<HeapByteArray<64>, HeapBytes>, _> = dryoc::sign::SignedMessage::from_bytes(w);
                    match sm {
                        Ok(sm) => {
                            let pkk: dryoc::sign::PublicKey = pk.into();
                            let _ = sm.to_vec();
                            Some(sm.verify(&pkk).is_ok())
                        }
                        Err(_) => Some(false),
                    }
                }
                #[cfg(not(feature = "nightly"))]
                Kind::SignObjFromBytesHeap => panic!("harness: kind not available in this build"),
                Kind::SignIncFinalVerify => {
                    let sig: [u8; 64] = w[..64].try_into().unwrap();
                    let mut st = crypto_sign_init();
                    crypto_sign_update(&mut st, &w[64..]);
                    Some(crypto_sign_final_verify(st, &sig, &pk).is_ok())
                }
                Kind::SignObjIncVerify => {
                    let sig: [u8; 64] = w[..64].try_into().unwrap();
                    let mut s = dryoc::sign::IncrementalSigner::new();
                    s.update(&w[64..].to_vec());
                    Some(s.verify(&sig, &pk).is_ok())
                }
                Kind::AuthVerify => {
                    let mac: [u8; 32] = w[..32].try_into().unwrap();
                    Some(crypto_auth_verify(&mac, &w[32..], &key).is_ok())
                }
                Kind::AuthObjVerify => {
                    let mac: [u8; 32] = w[..32].try_into().unwrap();
                    let one = dryoc::auth::Auth::compute_and_verify(&mac, key, &w[32..].to_vec()).is_ok();
                    // the incremental verifier (new / update in two pieces / verify) must agree
                    let body = &w[32..];
                    let mut a = dryoc::auth::Auth::new(key);
                    a.update(&body[..body.len() / 2].to_vec());
                    a.update(&body[body.len() / 2..].to_vec());
                    let inc = a.verify(&mac).is_ok();
                    let macv: Vec<u8> = mac.to_vec();
                    let mut b = dryoc::auth::Auth::new(key);
                    b.update(&body.to_vec());
                    let incv = b.verify(&macv).is_ok();
                    Some(one && inc && incv)
                }
                Kind::OtaVerify => {
                    let mac: [u8; 16] = w[..16].try_into().unwrap();
                    Some(crypto_onetimeauth_verify(&mac, &w[16..], &key).is_ok())
                }
                Kind::OtaObjVerify => {
                    let mac: [u8; 16] = w[..16].try_into().unwrap();
                    let one = dryoc::onetimeauth::OnetimeAuth::compute_and_verify(&mac, key, &w[16..].to_vec()).is_ok();
                    let body = &w[16..];
                    let mut a = dryoc::onetimeauth::OnetimeAuth::new(key);
                    a.update(&body[..body.len() / 2].to_vec());
                    a.update(&body[body.len() / 2..].to_vec());
                    let inc = a.verify(&mac).is_ok();
                    Some(one && inc)
                }
                Kind::PwStrVerify => {
                    let s = String::from_utf8_lossy(w).to_string();
                    if !affordable(&s) {
                        skipped = true;
                        // still parse it: needs_rehash goes through the same parser without computing
                        let _ = crypto_pwhash_str_needs_rehash(&s, 1, 8192);
                        return None;
                    }
                    Some(crypto_pwhash_str_verify(&s, &password).is_ok())
                }
                Kind::PwStrNeedsRehash => {
                    let s = String::from_utf8_lossy(w).to_string();
                    let a = crypto_pwhash_str_needs_rehash(&s, 1, 8192);
                    let _ = crypto_pwhash_str_needs_rehash(&s, u64::MAX, usize::MAX);
                    let _ = crypto_pwhash_str_needs_rehash(&s, 0, 0);
                    Some(matches!(a, Ok(false)))
                }
                Kind::PwObjFromString => {
                    let s = String::from_utf8_lossy(w).to_string();
                    let h: Result<dryoc::pwhash::VecPwHash, _> = dryoc::pwhash::PwHash::from_string(&s);
                    match h {
                        Ok(h) => {
                            let _ = h.to_string();
                            if !affordable(&s) {
                                skipped = true;
                                return None;
                            }
                            Some(h.verify(&password).is_ok())
                        }
                        Err(_) => Some(false),
                    }
                }
            }
        });
        let peak = crate::kit::alloc::disarm();
        let _ = oh;
        if skipped {
            out.probe("pwhash.cost_guard_skipped_compute");
        }
        (r, peak)
    }
}

impl World for VerifierWorld {
    const NAME: &'static str = "verifier";
    type Config = Config;
    type Event = Event;

    fn gen_config(rng: &mut Rng, prop: &str, _tier: Tier, _run: u64) -> Config {
        // string kinds get half of the runs: they have by far the largest parser
        let kind = if cfg!(feature = "nightly") {
            Kind::SignObjFromBytesHeap
        } else if rng.chance(1, 2) {
            *rng.pick(&KINDS[9..])
        } else {
            *rng.pick(&KINDS[..9])
        };
        let special = if matches!(kind, Kind::OtaVerify | Kind::OtaObjVerify) && rng.chance(1, 5) { 1 + rng.below(super::chunk::SPECIAL_COUNT as u64) as u8 } else { 0 };
        Config { prop: prop.to_string(), kind, rseed: rng.next_u64(), argon2i: rng.chance(1, 3), deliveries: 2 + rng.usize_below(6), special }
    }

    fn new(cfg: &Config) -> Self {
        install_rng(cfg.rseed);
        let (sign_pk, sign_sk) = crypto_sign_keypair();
        let mac_key = crypto_auth_keygen();
        VerifierWorld { bufpol: std::cell::Cell::new(0), cfg: cfg.clone(), sign_pk, sign_sk, mac_key, wire: None, msg: Vec::new(), plan: Vec::new(), planned: false }
    }

    fn next_event(&mut self, rng: &mut Rng) -> Option<Event> {
        if !self.planned {
            self.planned = true;
            let k = self.cfg.kind;
            let len = if k.is_string() { rng.usize_below(24) } else { crate::kit::prng::draw_len(rng, 600) };
            let mut plan = vec![Event::Emit { len, fill: rng.next_u64() % 1000 }, Event::Deliver { fault: Fault::None, buf: 0 }];
            let wire_guess = if k.is_string() { 100 } else { len + k.overhead() };
            for _ in 0..self.cfg.deliveries {
                let f = if k.is_string() {
                    match rng.below(16) {
                        0..=2 => Fault::Truncate { k: 1 + rng.usize_below(wire_guess) },
                        3 => Fault::Extend { k: 1 + rng.usize_below(40), fill: rng.below(256) as u8 },
                        4 => Fault::Flip { bit: rng.usize_below(8 * wire_guess) },
                        5..=6 => Fault::Garbage { len: rng.usize_below(200), kind: rng.below(16) as u8 },
                        7 => Fault::SegDrop { i: rng.usize_below(6) },
                        8 => Fault::SegDup { i: rng.usize_below(6) },
                        9 => Fault::SegSwap { i: rng.usize_below(6), j: rng.usize_below(6) },
                        10 => Fault::SegEmpty { i: rng.usize_below(6) },
                        11 => Fault::CharReplace { pos: rng.usize_below(wire_guess), ch: rng.below(26) as u8 },
                        12 => {
                            if rng.chance(1, 2) {
                                Fault::CharInsert { pos: rng.usize_below(60), ch: rng.below(15) as u8 }
                            } else {
                                Fault::UnicodeInsert { pos: rng.usize_below(40), n: rng.usize_below(12), ch: rng.below(4) as u8 }
                            }
                        }
                        13..=14 => Fault::NumReplace {
                            which: rng.below(4) as u8,
                            value: *rng.pick(&[0u64, 1, 2, 3, 4, 7, 8, 9, 15, 16, 19, 0x13, 1023, 1024, 1025, 65536, 0x7fff_ffff, 0xffff_ffff, 0x1_0000_0000, u64::MAX]),
                        },
                        _ => Fault::WrongPassword,
                    }
                } else {
                    match rng.below(10) {
                        0..=3 => Fault::Truncate { k: 1 + rng.usize_below(wire_guess.max(1)) },
                        4 => Fault::Extend { k: 1 + rng.usize_below(40), fill: rng.below(256) as u8 },
                        5..=6 => Fault::Flip { bit: rng.usize_below(8 * wire_guess.max(1)) },
                        7 => Fault::Garbage { len: rng.usize_below(2 * k.overhead() + 65), kind: rng.below(12) as u8 },
                        8 => {
                            if k.overhead() == 64 {
                                if rng.chance(1, 2) {
                                    Fault::PublicKey { kind: rng.below(8) as u8, bit: rng.usize_below(256) }
                                } else {
                                    Fault::FieldValue { half: rng.below(3).min(1) as u8, value: rng.below(FIELD_VALUES as u64) as u8 }
                                }
                            } else {
                                Fault::Garbage { len: rng.usize_below(2 * k.overhead() + 65), kind: rng.below(12) as u8 }
                            }
                        }
                        _ => Fault::Splice { at: rng.usize_below(wire_guess.max(1)), n: 1 + rng.usize_below(20), fill: rng.next_u64() % 1000 },
                    }
                };
                let buf = if k == Kind::SignOpen && rng.chance(1, 3) { 1 + rng.below(4) as u8 } else { 0 };
                plan.push(Event::Deliver { fault: f, buf });
            }
            if k == Kind::SignOpen && rng.chance(1, 2) {
                // the genuine signed message into a buffer that is not exactly sized
                // (accept or refuse is the implementation's choice; it must not panic)
                plan.push(Event::Deliver { fault: Fault::None, buf: 1 + rng.below(4) as u8 });
            }
            plan.push(Event::Deliver { fault: Fault::None, buf: 0 });
            plan.reverse();
            self.plan = plan;
        }
        self.plan.pop()
    }

    fn step(&mut self, ev: &Event, out: &mut Out) {
        match ev {
            Event::Emit { len, fill } => {
                self.emit(*len, *fill);
                out.op();
                out.shape(&format!("E{}", self.cfg.kind.name()));
                out.note(&format!("emit {} len={} wire={:016x}", self.cfg.kind.name(), len, crate::kit::prng::fnv1a(self.wire.as_ref().unwrap())));
            }
            Event::Deliver { fault, buf } => {
                self.bufpol.set(*buf);
                if *buf != 0 {
                    out.fault("buffer.policy");
                }
                if self.wire.is_none() {
                    return;
                }
                let k = self.cfg.kind;
                let (w, wrong_pw) = self.corrupt(fault, out);
                let (res, peak) = self.receive(&w, wrong_pw, fault, out);
                out.op();
                out.shape(&format!("D{}", fault.kind()));
                let oh = k.overhead();
                let lc = if k.is_string() { "string" } else if w.len() < oh { "<overhead" } else if w.len() == oh { "=overhead" } else { ">overhead" };
                out.cell(&format!("{}|{}|{}", k.name(), fault.kind(), w.len().min(200)));
                let verdict = match &res {
                    Ok(Some(true)) => "accept",
                    Ok(Some(false)) => "reject",
                    Ok(None) => "skipped(cost)",
                    Err(_) => "unwind",
                };
                out.probe(&format!("verdict.{}", verdict));
                out.note(&format!("deliver {} fault={} len={} -> {}", k.name(), fault.kind(), w.len(), verdict));
                if *fault == Fault::None && *buf == 0 && !matches!(res, Ok(Some(true))) && k != Kind::PwStrNeedsRehash && self.cfg.special == 0 {
                    out.harness_error(format!("control delivery to {} was not accepted ({}) — harness or repo broken", k.name(), verdict));
                }
                if let Err((loc, msg)) = &res {
                    out.violate(
                        "C04",
                        "c04.panic",
                        site(&[("receiver", k.name()), ("fault", fault.kind()), ("len_class", lc), ("panic_site", loc)]),
                        format!("{} unwound on a {}-byte delivery (fault {:?}): {} at {}; delivered: {}", k.name(), w.len(), fault, msg, loc, if k.is_string() { format!("{:?}", String::from_utf8_lossy(&w)) } else { hex(&w[..w.len().min(80)]) }),
                    );
                }
                let mut bound = 8 * w.len() + (16 << 20);
                if k.is_string() {
                    bound += 1024 * 1024 + (1 << 20); // the guarded m (≤ 1 MiB of blocks)
                }
                if peak > bound {
                    out.violate("C04", "c04.alloc_bound", site(&[("receiver", k.name()), ("len_class", lc)]), format!("largest single allocation during the call was {} bytes for a {}-byte delivery (bound {})", peak, w.len(), bound));
                }
            }
        }
    }

    fn shrink(ev: &Event) -> Vec<Event> {
        match ev {
            Event::Emit { len, fill } if *len > 0 => vec![Event::Emit { len: 0, fill: *fill }, Event::Emit { len: len / 2, fill: *fill }],
            Event::Deliver { fault, buf } => {
                let buf = *buf;
                let mk = |f: Fault| Event::Deliver { fault: f, buf };
                match fault {
                    Fault::Flip { bit } if *bit > 0 => vec![mk(Fault::Flip { bit: 0 }), mk(Fault::Flip { bit: bit / 2 })],
                    Fault::Truncate { k } if *k > 1 => vec![mk(Fault::Truncate { k: 1 }), mk(Fault::Truncate { k: k / 2 }), mk(Fault::Truncate { k: k - 1 })],
                    Fault::Extend { k, fill } if *k > 1 || *fill != 0 => vec![mk(Fault::Extend { k: 1, fill: 0 })],
                    Fault::Garbage { len, kind } if *len > 0 => vec![mk(Fault::Garbage { len: 0, kind: *kind }), mk(Fault::Garbage { len: len / 2, kind: *kind }), mk(Fault::Garbage { len: len - 1, kind: *kind })],
                    Fault::Splice { at, n, fill } if *n > 1 => vec![mk(Fault::Splice { at: *at, n: 1, fill: *fill })],
                    _ => vec![],
                }
            }
            _ => vec![],
        }
    }

    fn crash_site(cfg: &Config, ev: &Event) -> Site {
        let fk = match ev {
            Event::Deliver { fault, .. } => fault.kind(),
            _ => "emit",
        };
        site(&[("receiver", cfg.kind.name()), ("fault", fk)])
    }

    fn prop_of(cfg: &Config) -> String {
        cfg.prop.clone()
    }
}

impl Drop for VerifierWorld {
    fn drop(&mut self) {
        uninstall_rng();
    }
}
