//! Box world (C02, C17, Box part of C04): sender A, receiver B, and a faulty
//! channel in between that the simulator owns. Reference model: a delivery is
//! accepted iff the delivered tuple is bit-identical to a sealed tuple.

use crate::kit::prng::{draw_len, pattern, Rng};
use crate::kit::*;
use dryoc::classic::crypto_box::*;
use dryoc::classic::crypto_secretbox::*;
use dryoc::dryocbox::DryocBox;
use dryoc::dryocsecretbox::DryocSecretBox;
use dryoc::types::*;
use serde::{Deserialize, Serialize};

#[derive(Clone, Copy, Debug, Serialize, Deserialize, PartialEq, Eq)]
pub enum Suite {
    Secretbox,
    Box,
    Sealed,
}

#[derive(Clone, Copy, Debug, Serialize, Deserialize, PartialEq, Eq)]
pub enum SForm {
    Easy,
    Detached,
    EasyInplace,
    DetachedInplace,
    DetachedAfternm,
    DetachedAfternmInplace,
    ObjEncrypt,
    ObjEncryptToVecbox,
    ObjPrecalcEncrypt,
    Seal,
    ObjSeal,
    ObjSealToVecbox,
    ObjEncryptIntoVec,
}

#[derive(Clone, Copy, Debug, Serialize, Deserialize, PartialEq, Eq)]
pub enum RForm {
    OpenEasy,
    OpenDetached,
    OpenEasyInplace,
    OpenDetachedInplace,
    OpenDetachedAfternm,
    OpenDetachedAfternmInplace,
    ObjFromBytesDecrypt,
    ObjFromPartsDecryptToVec,
    ObjPrecalcDecrypt,
    SealOpen,
    ObjFromSealedBytesUnseal,
    ObjFromPartsUnsealToVec,
    /// object API constructed from borrowed parts (with_data_and_mac / new_with_(epk_)data_and_mac)
    ObjWithDataAndMac,
    /// object API with `Vec<u8>` as the tag / key container (from_bytes / from_sealed_bytes)
    ObjFromBytesVecMac,
    /// build N only: object API into the protected heap container
    ObjFromBytesHeap,
    ObjDecryptLocked,
    /// build N only: the key lives in locked memory created before the process forks; the
    /// opening call runs in the forked child
    ObjLockedKeyInChild,
}

impl RForm {
    pub fn name(&self) -> &'static str {
        match self {
            RForm::OpenEasy => "open_easy",
            RForm::OpenDetached => "open_detached",
            RForm::OpenEasyInplace => "open_easy_inplace",
            RForm::OpenDetachedInplace => "open_detached_inplace",
            RForm::OpenDetachedAfternm => "open_detached_afternm",
            RForm::OpenDetachedAfternmInplace => "open_detached_afternm_inplace",
            RForm::ObjFromBytesDecrypt => "obj.from_bytes+decrypt",
            RForm::ObjFromPartsDecryptToVec => "obj.from_parts+decrypt_to_vec",
            RForm::ObjPrecalcDecrypt => "obj.precalc_decrypt",
            RForm::SealOpen => "seal_open",
            RForm::ObjFromSealedBytesUnseal => "obj.from_sealed_bytes+unseal",
            RForm::ObjFromPartsUnsealToVec => "obj.from_parts+unseal_to_vec",
            RForm::ObjWithDataAndMac => "obj.with_data_and_mac+decrypt",
            RForm::ObjFromBytesVecMac => "obj.from_bytes<Vec mac>+decrypt",
            RForm::ObjFromBytesHeap => "obj.from_bytes<HeapBytes>+decrypt",
            RForm::ObjDecryptLocked => "obj.decrypt<LockedBytes>",
            RForm::ObjLockedKeyInChild => "obj.decrypt(locked key, in a forked child)",
        }
    }
    fn combined(&self) -> bool {
        matches!(self, RForm::OpenEasy | RForm::OpenEasyInplace | RForm::ObjFromBytesDecrypt | RForm::SealOpen | RForm::ObjFromSealedBytesUnseal | RForm::ObjFromBytesHeap | RForm::ObjFromBytesVecMac)
    }
    fn uses_symmetric_key(&self, suite: Suite) -> bool {
        suite == Suite::Secretbox || matches!(self, RForm::OpenDetachedAfternm | RForm::OpenDetachedAfternmInplace | RForm::ObjPrecalcDecrypt)
    }
    fn classic(&self) -> bool {
        matches!(self, RForm::OpenEasy | RForm::OpenDetached | RForm::OpenEasyInplace | RForm::OpenDetachedInplace | RForm::OpenDetachedAfternm | RForm::OpenDetachedAfternmInplace | RForm::SealOpen)
    }
}

pub fn suite_name(s: Suite) -> &'static str {
    match s {
        Suite::Secretbox => "secretbox",
        Suite::Box => "box",
        Suite::Sealed => "sealedbox",
    }
}

#[derive(Clone, Copy, Debug, Serialize, Deserialize, PartialEq, Eq)]
pub enum Comp {
    Tag,
    Body,
    Nonce,
    Epk,
    Key,
}

#[derive(Clone, Debug, Serialize, Deserialize, PartialEq)]
pub enum Fault {
    None,
    Flip { comp: Comp, bit: usize },
    Truncate { k: usize },
    Extend { k: usize, fill: u8 },
    /// a whole component overwritten with one byte value (rare *values*: all-zero tag, all-0xff nonce ...)
    Fill { comp: Comp, value: u8 },
    /// C04 only: the whole wire content replaced (zeros / 0xff / random)
    Garbage { len: usize, kind: u8 },
    /// C04 only: a valid ciphertext with a run of bytes replaced
    Splice { at: usize, n: usize, fill: u64 },
    /// C04 only: the peer's public key handed to the opener is replaced
    /// (0 zeros, 1 0xff.., 2 u=1, 3 a small-order point, 4 p-1, 5 p, 6 random, 7 one flipped bit)
    PeerKey { kind: u8, bit: usize },
}

impl Fault {
    fn kind(&self) -> &'static str {
        match self {
            Fault::None => "none",
            Fault::Flip { comp, .. } => match comp {
                Comp::Tag => "flip.tag",
                Comp::Body => "flip.body",
                Comp::Nonce => "flip.nonce",
                Comp::Epk => "flip.epk",
                Comp::Key => "flip.key",
            },
            Fault::Truncate { .. } => "truncate",
            Fault::Extend { .. } => "extend",
            Fault::Fill { comp, .. } => match comp {
                Comp::Tag => "fill.tag",
                Comp::Body => "fill.body",
                Comp::Nonce => "fill.nonce",
                Comp::Epk => "fill.epk",
                Comp::Key => "fill.key",
            },
            Fault::Garbage { .. } => "garbage",
            Fault::Splice { .. } => "splice",
            Fault::PeerKey { .. } => "peerkey",
        }
    }
}

#[derive(Clone, Debug, Serialize, Deserialize)]
pub struct Config {
    pub prop: String,
    pub suite: Suite,
    pub sform: SForm,
    pub rform: RForm,
    pub rseed: u64,
    pub fault_free: bool,
    pub packets: usize,
    pub long_tail: bool,
}

#[derive(Clone, Debug, Serialize, Deserialize)]
pub enum Event {
    Seal { len: usize, fill: u64 },
    Deliver {
        slot: usize,
        fault: Fault,
        /// the caller's message buffer is this many bytes longer than needed (classic
        /// copying receivers only; C17 / C04 runs). The verdict is not judged then.
        #[serde(default)]
        oversize: usize,
        /// the caller's message buffer has the ORIGINAL message's length whatever arrived
        /// on the wire (fixed-size records); classic copying receivers only. Judged normally.
        #[serde(default)]
        orig_buf: bool,
        /// the caller's message buffer starts this many bytes past an 8-byte boundary
        #[serde(default)]
        mis: u8,
        /// the caller's message buffer still holds the ORIGINAL ciphertext body (staged there
        /// earlier) instead of a constant fill: what a truncation cut off is still in the buffer
        #[serde(default)]
        residue: bool,
    },
    /// A malicious sender whose public key (or sealed-box ephemeral key) is a
    /// small-order point: the shared secret is all-zero for every recipient, so
    /// anybody can mint a box that authenticates. Whatever the receiver's
    /// verdict, it must not crash (C04) and, if it says Err, must not leave the
    /// forged plaintext in the caller's buffer (C17).
    ForgedWeakKey { len: usize, fill: u64, point: u8 },
}

#[derive(Clone, Debug, PartialEq)]
struct Packet {
    nonce: [u8; 24],
    mac: [u8; 16],
    body: Vec<u8>,
    epk: Option<[u8; 32]>,
    plain: Vec<u8>,
}

impl Packet {
    fn combined(&self) -> Vec<u8> {
        let mut v = Vec::new();
        if let Some(e) = &self.epk {
            v.extend_from_slice(e);
        }
        v.extend_from_slice(&self.mac);
        v.extend_from_slice(&self.body);
        v
    }
}

pub struct BoxWorld {
    cfg: Config,
    // key material (drawn through hook H1 from the simulated generator)
    sb_key: [u8; 32],
    a_pk: [u8; 32],
    a_sk: [u8; 32],
    b_pk: [u8; 32],
    b_sk: [u8; 32],
    packets: Vec<Packet>,
    // policy state
    plan: Vec<Event>,
    planned: bool,
    /// C17: error text of rejected deliveries, keyed by the lengths the receiver saw
    err_texts: std::collections::BTreeMap<(String, usize, usize), String>,
    /// extra bytes appended to the caller's message buffer for the delivery in flight
    oversize: std::cell::Cell<usize>,
    /// (orig_buf, mis, residue) of the delivery in flight
    bufcfg: std::cell::Cell<(bool, u8, bool)>,
}

pub fn install_rng(seed: u64) {
    let mut r = Rng::new(seed, 0x51e4, 0);
    dryoc::rng::verif::set_source(Some(Box::new(move |dest: &mut [u8]| r.fill(dest))));
}

pub fn uninstall_rng() {
    dryoc::rng::verif::set_source(None);
}

/// fill of output buffers handed to sealing functions
const DIRTY: u8 = 0x5A;
const SENTINEL: u8 = 0xC3;

pub fn sender_forms(suite: Suite) -> &'static [SForm] {
    match suite {
        Suite::Secretbox => &[SForm::Easy, SForm::Detached, SForm::EasyInplace, SForm::ObjEncrypt, SForm::ObjEncryptToVecbox, SForm::ObjEncryptIntoVec],
        Suite::Box => &[
            SForm::Easy,
            SForm::Detached,
            SForm::EasyInplace,
            SForm::DetachedInplace,
            SForm::DetachedAfternm,
            SForm::DetachedAfternmInplace,
            SForm::ObjEncrypt,
            SForm::ObjEncryptToVecbox,
            SForm::ObjPrecalcEncrypt,
        ],
        Suite::Sealed => &[SForm::Seal, SForm::ObjSeal, SForm::ObjSealToVecbox],
    }
}

pub fn receiver_forms(suite: Suite) -> Vec<RForm> {
    let mut v = match suite {
        Suite::Secretbox => vec![RForm::OpenEasy, RForm::OpenDetached, RForm::OpenEasyInplace, RForm::ObjFromBytesDecrypt, RForm::ObjFromPartsDecryptToVec, RForm::ObjWithDataAndMac, RForm::ObjFromBytesVecMac],
        Suite::Box => vec![
            RForm::OpenEasy,
            RForm::OpenDetached,
            RForm::OpenEasyInplace,
            RForm::OpenDetachedInplace,
            RForm::OpenDetachedAfternm,
            RForm::OpenDetachedAfternmInplace,
            RForm::ObjFromBytesDecrypt,
            RForm::ObjFromPartsDecryptToVec,
            RForm::ObjPrecalcDecrypt,
            RForm::ObjWithDataAndMac,
            RForm::ObjFromBytesVecMac,
        ],
        Suite::Sealed => vec![RForm::SealOpen, RForm::ObjFromSealedBytesUnseal, RForm::ObjFromPartsUnsealToVec, RForm::ObjWithDataAndMac, RForm::ObjFromBytesVecMac],
    };
    if cfg!(feature = "nightly") {
        v.push(RForm::ObjFromBytesHeap);
        if suite != Suite::Sealed {
            v.push(RForm::ObjDecryptLocked);
            v.push(RForm::ObjLockedKeyInChild);
        }
    }
    v
}

/// What the channel hands to the receiver.
#[derive(Clone, Debug, PartialEq)]
struct Delivered {
    nonce: [u8; 24],
    mac: [u8; 16],
    body: Vec<u8>,
    combined: Vec<u8>,
    key: [u8; 32],
    peer_pk: [u8; 32],
}

fn special_point(kind: u8, bit: usize, honest: &[u8; 32]) -> [u8; 32] {
    let mut p = [0u8; 32];
    match kind % 8 {
        0 => {}
        1 => p = [0xff; 32],
        2 => p[0] = 1,
        3 => p = [0xe0, 0xeb, 0x7a, 0x7c, 0x3b, 0x41, 0xb8, 0xae, 0x16, 0x56, 0xe3, 0xfa, 0xf1, 0x9f, 0xc4, 0x6a, 0xda, 0x09, 0x8d, 0xeb, 0x9c, 0x32, 0xb1, 0xfd, 0x86, 0x62, 0x05, 0x16, 0x5f, 0x49, 0xb8, 0x00],
        4 => {
            p = [0xff; 32];
            p[0] = 0xec;
            p[31] = 0x7f;
        }
        5 => {
            p = [0xff; 32];
            p[0] = 0xed;
            p[31] = 0x7f;
        }
        6 => p = pattern(bit as u64 * 4, 32).try_into().unwrap(),
        _ => {
            p = *honest;
            let b = bit % 256;
            p[b / 8] ^= 1 << (b % 8);
        }
    }
    p
}

impl BoxWorld {
    fn sym_key(&self) -> [u8; 32] {
        match self.cfg.suite {
            Suite::Secretbox => self.sb_key,
            _ => crypto_box_beforenm(&self.a_pk, &self.b_sk),
        }
    }

    fn seal(&mut self, len: usize, fill: u64) -> Packet {
        let plain = pattern(fill, len);
        let mut nonce = [0u8; 24];
        dryoc::rng::copy_randombytes(&mut nonce);
        let mut mac = [DIRTY; 16];
        let mut body = vec![DIRTY; len];
        let mut epk = None;
        let s = self.cfg.suite;
        match (s, self.cfg.sform) {
            (Suite::Secretbox, SForm::Easy) => {
                let mut ct = vec![DIRTY; len + 16]; // a re-used (dirty) output buffer
                crypto_secretbox_easy(&mut ct, &plain, &nonce, &self.sb_key).expect("seal");
                mac.copy_from_slice(&ct[..16]);
                body.copy_from_slice(&ct[16..]);
            }
            (Suite::Secretbox, SForm::Detached) => {
                crypto_secretbox_detached(&mut body, &mut mac, &plain, &nonce, &self.sb_key);
            }
            (Suite::Secretbox, SForm::EasyInplace) => {
                let mut data = plain.clone();
                data.resize(len + 16, 0);
                crypto_secretbox_easy_inplace(&mut data, &nonce, &self.sb_key).expect("seal");
                mac.copy_from_slice(&data[..16]);
                body.copy_from_slice(&data[16..]);
            }
            (Suite::Secretbox, SForm::ObjEncrypt) => {
                let b: DryocSecretBox<dryoc::dryocsecretbox::Mac, Vec<u8>> = DryocSecretBox::encrypt(&plain, &nonce, &self.sb_key);
                let v = b.to_vec();
                mac.copy_from_slice(&v[..16]);
                body.copy_from_slice(&v[16..]);
            }
            (Suite::Secretbox, SForm::ObjEncryptIntoVec) => {
                let b = dryoc::dryocsecretbox::VecBox::encrypt_to_vecbox(&plain, &nonce, &self.sb_key);
                let v = b.into_vec();
                mac.copy_from_slice(&v[..16]);
                body.copy_from_slice(&v[16..]);
            }
            (Suite::Secretbox, _) => {
                let b = dryoc::dryocsecretbox::VecBox::encrypt_to_vecbox(&plain, &nonce, &self.sb_key);
                let (m, d) = b.into_parts();
                mac.copy_from_slice(m.as_slice());
                body = d;
            }
            (Suite::Box, SForm::Easy) => {
                let mut ct = vec![DIRTY; len + 16]; // a re-used (dirty) output buffer
                crypto_box_easy(&mut ct, &plain, &nonce, &self.b_pk, &self.a_sk).expect("seal");
                mac.copy_from_slice(&ct[..16]);
                body.copy_from_slice(&ct[16..]);
            }
            (Suite::Box, SForm::Detached) => {
                crypto_box_detached(&mut body, &mut mac, &plain, &nonce, &self.b_pk, &self.a_sk);
            }
            (Suite::Box, SForm::EasyInplace) => {
                let mut data = plain.clone();
                data.resize(len + 16, 0);
                crypto_box_easy_inplace(&mut data, &nonce, &self.b_pk, &self.a_sk).expect("seal");
                mac.copy_from_slice(&data[..16]);
                body.copy_from_slice(&data[16..]);
            }
            (Suite::Box, SForm::DetachedInplace) => {
                body.copy_from_slice(&plain);
                crypto_box_detached_inplace(&mut body, &mut mac, &nonce, &self.b_pk, &self.a_sk).expect("seal");
            }
            (Suite::Box, SForm::DetachedAfternm) => {
                let k = crypto_box_beforenm(&self.b_pk, &self.a_sk);
                crypto_box_detached_afternm(&mut body, &mut mac, &plain, &nonce, &k);
            }
            (Suite::Box, SForm::DetachedAfternmInplace) => {
                let k = crypto_box_beforenm(&self.b_pk, &self.a_sk);
                body.copy_from_slice(&plain);
                crypto_box_detached_afternm_inplace(&mut body, &mut mac, &nonce, &k);
            }
            (Suite::Box, SForm::ObjEncrypt) => {
                let b: DryocBox<dryoc::dryocbox::PublicKey, dryoc::dryocbox::Mac, Vec<u8>> = DryocBox::encrypt(&plain, &nonce, &self.b_pk, &self.a_sk).expect("seal");
                let v = b.to_vec();
                mac.copy_from_slice(&v[..16]);
                body.copy_from_slice(&v[16..]);
            }
            (Suite::Box, SForm::ObjPrecalcEncrypt) => {
                let k = dryoc::precalc::PrecalcSecretKey::precalculate(&self.b_pk, &self.a_sk);
                let b: dryoc::dryocbox::VecBox = DryocBox::precalc_encrypt(&plain, &nonce, &k).expect("seal");
                let (m, d, _) = b.into_parts();
                mac.copy_from_slice(m.as_slice());
                body = d;
            }
            (Suite::Box, _) => {
                let b = dryoc::dryocbox::VecBox::encrypt_to_vecbox(&plain, &nonce.into(), &self.b_pk.into(), &self.a_sk).expect("seal");
                let v: Vec<u8> = b.to_bytes();
                mac.copy_from_slice(&v[..16]);
                body.copy_from_slice(&v[16..]);
            }
            (Suite::Sealed, SForm::Seal) => {
                let mut ct = vec![DIRTY; len + 48]; // a re-used (dirty) output buffer
                crypto_box_seal(&mut ct, &plain, &self.b_pk).expect("seal");
                let mut e = [0u8; 32];
                e.copy_from_slice(&ct[..32]);
                epk = Some(e);
                mac.copy_from_slice(&ct[32..48]);
                body.copy_from_slice(&ct[48..]);
            }
            (Suite::Sealed, SForm::ObjSeal) => {
                let b: DryocBox<dryoc::dryocbox::PublicKey, dryoc::dryocbox::Mac, Vec<u8>> = DryocBox::seal(&plain, &self.b_pk).expect("seal");
                let v = b.to_vec();
                let mut e = [0u8; 32];
                e.copy_from_slice(&v[..32]);
                epk = Some(e);
                mac.copy_from_slice(&v[32..48]);
                body.copy_from_slice(&v[48..]);
            }
            (Suite::Sealed, _) => {
                let b = dryoc::dryocbox::VecBox::seal_to_vecbox(&plain, &self.b_pk.into()).expect("seal");
                let (m, d, e) = b.into_parts();
                let mut ee = [0u8; 32];
                ee.copy_from_slice(e.expect("epk").as_slice());
                epk = Some(ee);
                mac.copy_from_slice(m.as_slice());
                body = d;
            }
        }
        Packet { nonce, mac, body, epk, plain }
    }

    /// Apply one fault to the tuple in the representation the receiver form consumes.
    fn corrupt(&self, p: &Packet, fault: &Fault, out: &mut Out) -> Delivered {
        let rf = self.cfg.rform;
        let mut d = Delivered { nonce: p.nonce, mac: p.mac, body: p.body.clone(), combined: p.combined(), key: self.sym_key(), peer_pk: self.a_pk };
        let epk_len = if p.epk.is_some() { 32 } else { 0 };
        let flip = |buf: &mut [u8], bit: usize| -> bool {
            if buf.is_empty() {
                return false;
            }
            let b = bit % (buf.len() * 8);
            buf[b / 8] ^= 1 << (b % 8);
            true
        };
        let mut fired = true;
        match fault {
            Fault::None => fired = false,
            Fault::Flip { comp, bit } => match comp {
                Comp::Tag => {
                    flip(&mut d.mac, *bit);
                    flip(&mut d.combined[epk_len..epk_len + 16], *bit);
                }
                Comp::Body => {
                    let a = flip(&mut d.body, *bit);
                    flip(&mut d.combined[epk_len + 16..], *bit);
                    fired = a;
                }
                Comp::Nonce => {
                    if p.epk.is_some() {
                        fired = false; // sealed boxes carry no nonce on the wire
                    } else {
                        flip(&mut d.nonce, *bit);
                    }
                }
                Comp::Epk => {
                    if epk_len == 0 || !rf.combined() {
                        fired = false; // detached forms take the key from the packet, not the wire
                    } else {
                        flip(&mut d.combined[..32], *bit);
                    }
                }
                Comp::Key => {
                    if rf.uses_symmetric_key(self.cfg.suite) {
                        flip(&mut d.key, *bit);
                    } else {
                        fired = false;
                    }
                }
            },
            Fault::Fill { comp, value } => match comp {
                Comp::Tag => {
                    d.mac = [*value; 16];
                    d.combined[epk_len..epk_len + 16].fill(*value);
                }
                Comp::Body => {
                    fired = !d.body.is_empty();
                    d.body.fill(*value);
                    d.combined[epk_len + 16..].fill(*value);
                }
                Comp::Nonce => {
                    if p.epk.is_some() {
                        fired = false;
                    } else {
                        d.nonce = [*value; 24];
                    }
                }
                Comp::Epk => {
                    if epk_len == 0 || !rf.combined() {
                        fired = false;
                    } else {
                        d.combined[..32].fill(*value);
                    }
                }
                Comp::Key => {
                    if rf.uses_symmetric_key(self.cfg.suite) {
                        d.key = [*value; 32];
                    } else {
                        fired = false;
                    }
                }
            },
            Fault::Truncate { k } => {
                if rf.combined() {
                    let k = (*k).min(d.combined.len());
                    fired = k > 0;
                    let n = d.combined.len() - k;
                    d.combined.truncate(n);
                } else {
                    let k = (*k).min(d.body.len());
                    fired = k > 0;
                    let n = d.body.len() - k;
                    d.body.truncate(n);
                }
            }
            Fault::Extend { k, fill } => {
                fired = *k > 0;
                let ext: Vec<u8> = match fill % 3 {
                    0 => vec![0u8; *k],
                    1 => vec![0xffu8; *k],
                    _ => pattern(*fill as u64 * 4, *k),
                };
                if rf.combined() {
                    d.combined.extend_from_slice(&ext);
                } else {
                    d.body.extend_from_slice(&ext);
                }
            }
            Fault::Garbage { len, kind } => {
                let g: Vec<u8> = match kind % 3 {
                    0 => vec![0u8; *len],
                    1 => vec![0xffu8; *len],
                    _ => pattern((*kind as u64) * 4 + 1000, *len),
                };
                if rf.combined() {
                    d.combined = g;
                } else {
                    d.body = g;
                    d.mac = pattern(*kind as u64 * 4 + 2000, 16).try_into().unwrap();
                }
            }
            Fault::PeerKey { kind, bit } => {
                // only the openers that take the sender's public key
                if self.cfg.suite == Suite::Box && !rf.uses_symmetric_key(self.cfg.suite) {
                    d.peer_pk = special_point(*kind, *bit, &self.a_pk);
                    fired = d.peer_pk != self.a_pk;
                } else if self.cfg.suite == Suite::Sealed && rf.combined() {
                    let e = special_point(*kind, *bit, &p.epk.unwrap_or([0; 32]));
                    fired = d.combined[..32] != e[..];
                    d.combined[..32].copy_from_slice(&e);
                } else {
                    fired = false;
                }
            }
            Fault::Splice { at, n, fill } => {
                let buf = if rf.combined() { &mut d.combined } else { &mut d.body };
                if buf.is_empty() || *n == 0 {
                    fired = false;
                } else {
                    let at = at % buf.len();
                    let n = (*n).min(buf.len() - at);
                    let r = pattern(*fill * 4, n);
                    buf[at..at + n].copy_from_slice(&r);
                }
            }
        }
        if fired {
            out.fault(fault.kind());
        }
        d
    }

    fn identical(&self, p: &Packet, d: &Delivered) -> bool {
        let rf = self.cfg.rform;
        let key_same = (!rf.uses_symmetric_key(self.cfg.suite) || d.key == self.sym_key()) && d.peer_pk == self.a_pk;
        let nonce_same = p.epk.is_some() || d.nonce == p.nonce;
        if rf.combined() {
            key_same && nonce_same && d.combined == p.combined()
        } else {
            // detached sealed forms get the epk from the (uncorrupted) packet
            key_same && nonce_same && d.mac == p.mac && d.body == p.body
        }
    }

    /// Run the receiver. Returns (result, C17 observation).
    /// result: Ok(Some(plaintext)) accepted, Ok(None) rejected, Err = unwound.
    fn receive(&self, p: &Packet, d: &Delivered) -> (Result<Option<Vec<u8>>, (String, String)>, Option<C17Obs>, usize, Option<String>) {
        let suite = self.cfg.suite;
        let rf = self.cfg.rform;
        let overhead = if suite == Suite::Sealed { 48 } else { 16 };
        let mut obs: Option<C17Obs> = None;
        let mut err_text: Option<String> = None;
        let extra = self.oversize.get();
        let (orig_buf, mis, residue) = self.bufcfg.get();
        let orig_len = p.plain.len();
        let orig_body = p.body.clone();
        // the caller's message buffer: `wire_n` bytes as computed from what arrived (plus the
        // oversize), or the original message's length; placed `mis` bytes past an 8-byte boundary
        let mk = move |wire_n: usize, extra: usize| -> (Vec<u8>, std::ops::Range<usize>) {
            let n = if orig_buf { orig_len } else { wire_n + extra };
            let mut backing = vec![SENTINEL; n + 16];
            let off = (8 - backing.as_ptr() as usize % 8) % 8 + mis as usize;
            if residue {
                let k = n.min(orig_body.len());
                backing[off..off + k].copy_from_slice(&orig_body[..k]);
            }
            (backing, off..off + n)
        };
        let a_pk = d.peer_pk;
        let b_pk = self.b_pk;
        let b_sk = self.b_sk;
        crate::kit::alloc::arm();
        let r = guarded(|| -> Option<Vec<u8>> {
            match (suite, rf) {
                (Suite::Secretbox, RForm::OpenEasy) => {
                    let (mut bk, rg) = mk(d.combined.len().saturating_sub(16), extra);
                    let m = &mut bk[rg];
                    let before = m.to_vec();
                    let r = crypto_secretbox_open_easy(&mut *m, &d.combined, &d.nonce, &d.key);
                    obs = Some(C17Obs { before, after: m.to_vec(), ok: r.is_ok() });
                    r.map_err(|e| { err_text = Some(format!("{:?}", e)); e }).ok().map(|_| m.to_vec())
                }
                (Suite::Secretbox, RForm::OpenDetached) => {
                    let (mut bk, rg) = mk(d.body.len(), extra);
                    let m = &mut bk[rg];
                    let before = m.to_vec();
                    let r = crypto_secretbox_open_detached(&mut *m, &d.mac, &d.body, &d.nonce, &d.key);
                    obs = Some(C17Obs { before, after: m.to_vec(), ok: r.is_ok() });
                    r.map_err(|e| { err_text = Some(format!("{:?}", e)); e }).ok().map(|_| m.to_vec())
                }
                (Suite::Secretbox, RForm::OpenEasyInplace) => {
                    let mut m = d.combined.clone();
                    let before = m.clone();
                    let r = crypto_secretbox_open_easy_inplace(&mut m, &d.nonce, &d.key);
                    obs = Some(C17Obs { before, after: m.clone(), ok: r.is_ok() });
                    r.map_err(|e| { err_text = Some(format!("{:?}", e)); e }).ok().map(|_| m[..m.len() - 16].to_vec())
                }
                (Suite::Secretbox, RForm::ObjFromBytesDecrypt) => {
                    let b: DryocSecretBox<dryoc::dryocsecretbox::Mac, Vec<u8>> = DryocSecretBox::from_bytes(&d.combined).map_err(|e| { err_text = Some(format!("{:?}", e)); e }).ok()?;
                    b.decrypt::<Vec<u8>, _, _>(&d.nonce, &d.key).map_err(|e| { err_text = Some(format!("{:?}", e)); e }).ok()
                }
                (Suite::Secretbox, RForm::ObjFromPartsDecryptToVec) => {
                    let b = dryoc::dryocsecretbox::VecBox::from_parts(d.mac.into(), d.body.clone());
                    b.decrypt_to_vec(&d.nonce, &d.key).map_err(|e| { err_text = Some(format!("{:?}", e)); e }).ok()
                }
                (Suite::Secretbox, RForm::ObjWithDataAndMac) => {
                    let tag: dryoc::dryocsecretbox::Mac = d.mac.into();
                    let b: DryocSecretBox<dryoc::dryocsecretbox::Mac, Vec<u8>> = DryocSecretBox::with_data_and_mac(tag, &d.body);
                    b.decrypt::<Vec<u8>, _, _>(&d.nonce, &d.key).ok()
                }
                (Suite::Secretbox, RForm::ObjFromBytesVecMac) => {
                    let b: DryocSecretBox<Vec<u8>, Vec<u8>> = DryocSecretBox::from_bytes(&d.combined).ok()?;
                    b.decrypt::<Vec<u8>, _, _>(&d.nonce, &d.key).ok()
                }
                (Suite::Box, RForm::ObjWithDataAndMac) => {
                    let tag: dryoc::dryocbox::Mac = d.mac.into();
                    let b: DryocBox<dryoc::dryocbox::PublicKey, dryoc::dryocbox::Mac, Vec<u8>> = DryocBox::new_with_data_and_mac(tag, &d.body);
                    b.decrypt::<_, _, _, Vec<u8>>(&d.nonce, &a_pk, &b_sk).ok()
                }
                (Suite::Box, RForm::ObjFromBytesVecMac) => {
                    let b: DryocBox<Vec<u8>, Vec<u8>, Vec<u8>> = DryocBox::from_bytes(&d.combined).ok()?;
                    b.decrypt::<_, _, _, Vec<u8>>(&d.nonce, &a_pk, &b_sk).ok()
                }
                (Suite::Sealed, RForm::ObjWithDataAndMac) => {
                    let tag: dryoc::dryocbox::Mac = d.mac.into();
                    let e: dryoc::dryocbox::PublicKey = p.epk.expect("sealed packet").into();
                    let b: DryocBox<dryoc::dryocbox::PublicKey, dryoc::dryocbox::Mac, Vec<u8>> = DryocBox::new_with_epk_data_and_mac(e, tag, &d.body);
                    let kp = dryoc::dryocbox::KeyPair::from_slices(&b_pk, &b_sk).expect("kp");
                    b.unseal::<_, _, Vec<u8>>(&kp).ok()
                }
                (Suite::Sealed, RForm::ObjFromBytesVecMac) => {
                    let b: DryocBox<Vec<u8>, Vec<u8>, Vec<u8>> = DryocBox::from_sealed_bytes(&d.combined).ok()?;
                    let kp = dryoc::dryocbox::KeyPair::from_slices(&b_pk, &b_sk).expect("kp");
                    b.unseal::<_, _, Vec<u8>>(&kp).ok()
                }
                (Suite::Box, RForm::OpenEasy) => {
                    let (mut bk, rg) = mk(d.combined.len().saturating_sub(16), extra);
                    let m = &mut bk[rg];
                    let before = m.to_vec();
                    let r = crypto_box_open_easy(&mut *m, &d.combined, &d.nonce, &a_pk, &b_sk);
                    obs = Some(C17Obs { before, after: m.to_vec(), ok: r.is_ok() });
                    r.map_err(|e| { err_text = Some(format!("{:?}", e)); e }).ok().map(|_| m.to_vec())
                }
                (Suite::Box, RForm::OpenDetached) => {
                    let (mut bk, rg) = mk(d.body.len(), extra);
                    let m = &mut bk[rg];
                    let before = m.to_vec();
                    let r = crypto_box_open_detached(&mut *m, &d.mac, &d.body, &d.nonce, &a_pk, &b_sk);
                    obs = Some(C17Obs { before, after: m.to_vec(), ok: r.is_ok() });
                    r.map_err(|e| { err_text = Some(format!("{:?}", e)); e }).ok().map(|_| m.to_vec())
                }
                (Suite::Box, RForm::OpenEasyInplace) => {
                    let mut m = d.combined.clone();
                    let before = m.clone();
                    let r = crypto_box_open_easy_inplace(&mut m, &d.nonce, &a_pk, &b_sk);
                    obs = Some(C17Obs { before, after: m.clone(), ok: r.is_ok() });
                    r.map_err(|e| { err_text = Some(format!("{:?}", e)); e }).ok().map(|_| m[..m.len() - 16].to_vec())
                }
                (Suite::Box, RForm::OpenDetachedInplace) => {
                    let mut m = d.body.clone();
                    let before = m.clone();
                    let r = crypto_box_open_detached_inplace(&mut m, &d.mac, &d.nonce, &a_pk, &b_sk);
                    obs = Some(C17Obs { before, after: m.clone(), ok: r.is_ok() });
                    r.map_err(|e| { err_text = Some(format!("{:?}", e)); e }).ok().map(|_| m)
                }
                (Suite::Box, RForm::OpenDetachedAfternm) => {
                    let (mut bk, rg) = mk(d.body.len(), extra);
                    let m = &mut bk[rg];
                    let before = m.to_vec();
                    let r = crypto_box_open_detached_afternm(&mut *m, &d.mac, &d.body, &d.nonce, &d.key);
                    obs = Some(C17Obs { before, after: m.to_vec(), ok: r.is_ok() });
                    r.map_err(|e| { err_text = Some(format!("{:?}", e)); e }).ok().map(|_| m.to_vec())
                }
                (Suite::Box, RForm::OpenDetachedAfternmInplace) => {
                    let mut m = d.body.clone();
                    let before = m.clone();
                    let r = crypto_box_open_detached_afternm_inplace(&mut m, &d.mac, &d.nonce, &d.key);
                    obs = Some(C17Obs { before, after: m.clone(), ok: r.is_ok() });
                    r.map_err(|e| { err_text = Some(format!("{:?}", e)); e }).ok().map(|_| m)
                }
                (Suite::Box, RForm::ObjFromBytesDecrypt) => {
                    let b: DryocBox<dryoc::dryocbox::PublicKey, dryoc::dryocbox::Mac, Vec<u8>> = DryocBox::from_bytes(&d.combined).map_err(|e| { err_text = Some(format!("{:?}", e)); e }).ok()?;
                    b.decrypt::<_, _, _, Vec<u8>>(&d.nonce, &a_pk, &b_sk).map_err(|e| { err_text = Some(format!("{:?}", e)); e }).ok()
                }
                (Suite::Box, RForm::ObjFromPartsDecryptToVec) => {
                    let b = dryoc::dryocbox::VecBox::from_parts(d.mac.into(), d.body.clone(), None);
                    b.decrypt_to_vec(&d.nonce.into(), &a_pk.into(), &b_sk).map_err(|e| { err_text = Some(format!("{:?}", e)); e }).ok()
                }
                (Suite::Box, RForm::ObjPrecalcDecrypt) => {
                    let b = dryoc::dryocbox::VecBox::from_parts(d.mac.into(), d.body.clone(), None);
                    let k: StackByteArray<32> = d.key.into();
                    b.precalc_decrypt_to_vec(&d.nonce.into(), &k).map_err(|e| { err_text = Some(format!("{:?}", e)); e }).ok()
                }
                (Suite::Sealed, RForm::SealOpen) => {
                    let (mut bk, rg) = mk(d.combined.len().saturating_sub(48), 0);
                    let m = &mut bk[rg];
                    let before = m.to_vec();
                    let r = crypto_box_seal_open(&mut *m, &d.combined, &b_pk, &b_sk);
                    obs = Some(C17Obs { before, after: m.to_vec(), ok: r.is_ok() });
                    r.map_err(|e| { err_text = Some(format!("{:?}", e)); e }).ok().map(|_| m.to_vec())
                }
                (Suite::Sealed, RForm::ObjFromSealedBytesUnseal) => {
                    let b: DryocBox<dryoc::dryocbox::PublicKey, dryoc::dryocbox::Mac, Vec<u8>> = DryocBox::from_sealed_bytes(&d.combined).map_err(|e| { err_text = Some(format!("{:?}", e)); e }).ok()?;
                    let kp = dryoc::dryocbox::KeyPair::from_slices(&b_pk, &b_sk).expect("kp");
                    b.unseal::<_, _, Vec<u8>>(&kp).map_err(|e| { err_text = Some(format!("{:?}", e)); e }).ok()
                }
                (Suite::Sealed, RForm::ObjFromPartsUnsealToVec) => {
                    let e: dryoc::dryocbox::PublicKey = p.epk.expect("sealed packet").into();
                    let b = dryoc::dryocbox::VecBox::from_parts(d.mac.into(), d.body.clone(), Some(e));
                    let kp = dryoc::dryocbox::KeyPair::from_slices(&b_pk, &b_sk).expect("kp");
                    b.unseal_to_vec(&kp).map_err(|e| { err_text = Some(format!("{:?}", e)); e }).ok()
                }
                #[cfg(feature = "nightly")]
                (s, RForm::ObjFromBytesHeap) => {
                    use dryoc::protected::*;
                    match s {
                        Suite::Secretbox => {
                            let b: DryocSecretBox<dryoc::dryocsecretbox::Mac, HeapBytes> = DryocSecretBox::from_bytes(&d.combined).map_err(|e| { err_text = Some(format!("{:?}", e)); e }).ok()?;
                            b.decrypt::<HeapBytes, _, _>(&d.nonce, &d.key).map_err(|e| { err_text = Some(format!("{:?}", e)); e }).ok().map(|m| m.as_slice().to_vec())
                        }
                        Suite::Box => {
                            let b: DryocBox<dryoc::dryocbox::PublicKey, dryoc::dryocbox::Mac, HeapBytes> = DryocBox::from_bytes(&d.combined).map_err(|e| { err_text = Some(format!("{:?}", e)); e }).ok()?;
                            b.decrypt::<_, _, _, HeapBytes>(&d.nonce, &a_pk, &b_sk).map_err(|e| { err_text = Some(format!("{:?}", e)); e }).ok().map(|m| m.as_slice().to_vec())
                        }
                        Suite::Sealed => {
                            let b: DryocBox<dryoc::dryocbox::PublicKey, dryoc::dryocbox::Mac, HeapBytes> = DryocBox::from_sealed_bytes(&d.combined).map_err(|e| { err_text = Some(format!("{:?}", e)); e }).ok()?;
                            let kp = dryoc::dryocbox::KeyPair::from_slices(&b_pk, &b_sk).expect("kp");
                            b.unseal::<_, _, HeapBytes>(&kp).map_err(|e| { err_text = Some(format!("{:?}", e)); e }).ok().map(|m| m.as_slice().to_vec())
                        }
                    }
                }
                #[cfg(feature = "nightly")]
                (s, RForm::ObjDecryptLocked) => {
                    use dryoc::protected::*;
                    match s {
                        Suite::Secretbox => {
                            let b = dryoc::dryocsecretbox::VecBox::from_parts(d.mac.into(), d.body.clone());
                            b.decrypt::<LockedBytes, _, _>(&d.nonce, &d.key).map_err(|e| { err_text = Some(format!("{:?}", e)); e }).ok().map(|m| m.as_slice().to_vec())
                        }
                        _ => {
                            let b = dryoc::dryocbox::VecBox::from_parts(d.mac.into(), d.body.clone(), None);
                            b.decrypt::<_, _, _, LockedBytes>(&d.nonce, &a_pk, &b_sk).map_err(|e| { err_text = Some(format!("{:?}", e)); e }).ok().map(|m| m.as_slice().to_vec())
                        }
                    }
                }
                #[cfg(feature = "nightly")]
                (s, RForm::ObjLockedKeyInChild) => {
                    use dryoc::protected::*;
                    let r = match s {
                        Suite::Secretbox => {
                            let key: Locked<HeapByteArray<32>> = HeapByteArray::<32>::from_slice_into_locked(&d.key).expect("failed to get locked bytes for the key");
                            let b = dryoc::dryocsecretbox::VecBox::from_parts(d.mac.into(), d.body.clone());
                            crate::kit::fork_run(|| match b.decrypt_to_vec(&d.nonce, &key) {
                                Ok(m) => {
                                    let mut v = vec![1u8];
                                    v.extend_from_slice(&m);
                                    v
                                }
                                Err(_) => vec![0u8],
                            })
                        }
                        _ => {
                            let sk: Locked<HeapByteArray<32>> = HeapByteArray::<32>::from_slice_into_locked(&b_sk).expect("failed to get locked bytes for the key");
                            let b = dryoc::dryocbox::VecBox::from_parts(d.mac.into(), d.body.clone(), None);
                            crate::kit::fork_run(|| match b.decrypt_to_vec(&d.nonce.into(), &a_pk.into(), &sk) {
                                Ok(m) => {
                                    let mut v = vec![1u8];
                                    v.extend_from_slice(&m);
                                    v
                                }
                                Err(_) => vec![0u8],
                            })
                        }
                    };
                    match r {
                        Ok(v) if v.first() == Some(&1) => Some(v[1..].to_vec()),
                        Ok(_) => None,
                        Err(how) if how.starts_with("harness") => panic!("{}", how),
                        Err(how) => panic!("the forked child that ran the opening call with a key in locked memory was {} instead of returning Ok or Err", how),
                    }
                }
                (s, f) => panic!("harness: receiver form {:?} not available for suite {:?} in this build", f, s),
            }
        });
        let peak = crate::kit::alloc::disarm();
        let _ = overhead;
        (r, obs, peak, err_text)
    }
}

/// The sealed-box nonce, as anybody can compute it: BLAKE2b-192(epk || recipient pk).
fn crypto_box_seal_nonce_public(nonce: &mut [u8; 24], epk: &[u8; 32], rpk: &[u8; 32]) {
    use dryoc::classic::crypto_generichash::*;
    let mut st = crypto_generichash_init(None, 24).expect("gh init");
    crypto_generichash_update(&mut st, epk);
    crypto_generichash_update(&mut st, rpk);
    crypto_generichash_final(st, nonce).expect("gh final");
}

pub struct C17Obs {
    pub before: Vec<u8>,
    pub after: Vec<u8>,
    pub ok: bool,
}

fn len_class(n: usize, overhead: usize) -> &'static str {
    if n < overhead {
        "<overhead"
    } else if n == overhead {
        "=overhead"
    } else {
        ">overhead"
    }
}

impl World for BoxWorld {
    const NAME: &'static str = "box";
    type Config = Config;
    type Event = Event;

    fn gen_config(rng: &mut Rng, prop: &str, _tier: Tier, _run: u64) -> Config {
        // secretbox opens cost ~1 µs, box opens ~50 µs: weight suites so that
        // every suite gets a solid share of *deliveries*
        let suite = match rng.below(10) {
            0..=3 => Suite::Secretbox,
            4..=7 => Suite::Box,
            _ => Suite::Sealed,
        };
        let sform = *rng.pick(sender_forms(suite));
        let mut rfs = receiver_forms(suite);
        if prop == "C17" {
            rfs.retain(|f| f.classic());
        }
        if cfg!(feature = "nightly") {
            // build N exists for the protected-container receivers only
            rfs.retain(|f| matches!(f, RForm::ObjFromBytesHeap | RForm::ObjDecryptLocked | RForm::ObjLockedKeyInChild));
        }
        let rform = *rng.pick(&rfs);
        Config { prop: prop.to_string(), suite, sform, rform, rseed: rng.next_u64(), fault_free: rng.chance(1, 8), packets: 1 + rng.usize_below(3), long_tail: rng.chance(1, 10) }
    }

    fn new(cfg: &Config) -> Self {
        install_rng(cfg.rseed);
        let sb_key = crypto_secretbox_keygen();
        let (a_pk, a_sk) = crypto_box_keypair();
        let (b_pk, b_sk) = crypto_box_keypair();
        BoxWorld { cfg: cfg.clone(), sb_key, a_pk, a_sk, b_pk, b_sk, packets: Vec::new(), plan: Vec::new(), planned: false, err_texts: std::collections::BTreeMap::new(), oversize: std::cell::Cell::new(0), bufcfg: std::cell::Cell::new((false, 0, false)) }
    }

    fn next_event(&mut self, rng: &mut Rng) -> Option<Event> {
        if !self.planned {
            // the fault plan for this run, drawn up front from the PRNG; it
            // only needs the packet lengths, which the policy chooses itself
            self.planned = true;
            let c04 = self.cfg.prop == "C04";
            let mut plan = Vec::new();
            let mut lens = Vec::new();
            for _ in 0..self.cfg.packets {
                let len = if self.cfg.long_tail {
                    if rng.chance(1, 12) {
                        // beyond 64 KiB: every 16-bit length/offset field would have wrapped
                        65_000 + rng.usize_below(6_000)
                    } else {
                        draw_len(rng, 4096)
                    }
                } else if rng.chance(1, 16) {
                    // the empty message: no body for a flip to land in, so only the tag,
                    // nonce and key faults can expose a MAC check skipped for it (C02-r8-1)
                    0
                } else {
                    rng.usize_below(81)
                };
                lens.push(len);
                plan.push(Event::Seal { len, fill: rng.next_u64() % 1000 });
            }
            let overhead = if self.cfg.suite == Suite::Sealed { 48 } else { 16 };
            for slot in 0..self.cfg.packets {
                let classic = self.cfg.rform.classic();
                let draw_mis = |rng: &mut Rng| -> u8 { if classic && rng.chance(1, 3) { 1 + rng.below(7) as u8 } else { 0 } };
                plan.push(Event::Deliver { slot, fault: Fault::None, oversize: 0, orig_buf: false, mis: draw_mis(rng), residue: false });
                if !self.cfg.fault_free {
                    let nf = 1 + rng.usize_below(5);
                    for _ in 0..nf {
                        let len = lens[slot];
                        let wire = len + overhead;
                        let f = if c04 {
                            match rng.below(10) {
                                0..=3 => Fault::Truncate { k: 1 + rng.usize_below(wire) },
                                4..=5 => Fault::Garbage { len: rng.usize_below(2 * overhead + 65), kind: rng.below(9) as u8 },
                                6 => {
                                    if rng.chance(1, 2) {
                                        Fault::Extend { k: 1 + rng.usize_below(40), fill: rng.below(256) as u8 }
                                    } else {
                                        Fault::Fill { comp: *rng.pick(&[Comp::Tag, Comp::Body, Comp::Nonce, Comp::Epk, Comp::Key]), value: *rng.pick(&[0x00u8, 0xff, 0x80, 0x01]) }
                                    }
                                }
                                7 => {
                                    if rng.chance(1, 2) {
                                        Fault::Splice { at: rng.usize_below(wire.max(1)), n: 1 + rng.usize_below(20), fill: rng.next_u64() % 1000 }
                                    } else {
                                        Fault::PeerKey { kind: rng.below(8) as u8, bit: rng.usize_below(256) }
                                    }
                                }
                                _ => Fault::Flip { comp: *rng.pick(&[Comp::Tag, Comp::Body, Comp::Nonce, Comp::Epk, Comp::Key]), bit: rng.usize_below(8 * wire.max(32)) },
                            }
                        } else {
                            match rng.below(20) {
                                0..=3 => Fault::Flip { comp: Comp::Tag, bit: rng.usize_below(128) },
                                4..=7 => {
                                    // messages beyond 64 KiB: half of the body flips land within 32 bytes of a
                                    // power-of-two / 16-bit boundary or of the end (where width-limited
                                    // arithmetic goes wrong), the rest anywhere
                                    let bit = if len >= 60_000 && rng.chance(1, 2) {
                                        let anchor = *rng.pick(&[65_536usize, 65_535, 65_520, 32_768, 131_072, len]);
                                        let byte = anchor.saturating_sub(rng.usize_below(33)).min(len - 1);
                                        byte * 8 + rng.usize_below(8)
                                    } else {
                                        rng.usize_below(8 * len.max(1))
                                    };
                                    Fault::Flip { comp: Comp::Body, bit }
                                }
                                8..=10 => Fault::Flip { comp: Comp::Nonce, bit: rng.usize_below(192) },
                                11..=12 => Fault::Flip { comp: Comp::Epk, bit: rng.usize_below(256) },
                                13..=14 => Fault::Flip { comp: Comp::Key, bit: rng.usize_below(256) },
                                15 => Fault::Fill { comp: *rng.pick(&[Comp::Tag, Comp::Tag, Comp::Body, Comp::Nonce, Comp::Epk, Comp::Key]), value: *rng.pick(&[0x00u8, 0xff, 0x80, 0x01]) },
                                16..=17 => Fault::Truncate { k: if len >= 60_000 && rng.chance(1, 2) { 1 + rng.usize_below(33) } else { 1 + rng.usize_below(wire) } },
                                _ => Fault::Extend { k: if rng.chance(3, 4) { 1 + rng.usize_below(33) } else { 1 + rng.usize_below(300) }, fill: rng.below(256) as u8 },
                            }
                        };
                        let oversize = if (c04 || self.cfg.prop == "C17") && self.cfg.rform.classic() && rng.chance(1, 6) { 1 + rng.usize_below(32) } else { 0 };
                        // fixed-size records: the caller sized its buffer for the message it expects,
                        // not from the (tampered) wire length
                        let orig_buf = oversize == 0 && classic && matches!(f, Fault::Truncate { .. } | Fault::Extend { .. } | Fault::Garbage { .. } | Fault::Splice { .. }) && rng.chance(1, 3);
                        let residue = classic && (orig_buf || oversize > 0) && matches!(f, Fault::Truncate { .. }) && rng.chance(1, 2);
                        plan.push(Event::Deliver { slot, fault: f, oversize, orig_buf, mis: draw_mis(rng), residue });
                    }
                    // faults stop: the genuine tuple must still open
                    plan.push(Event::Deliver { slot, fault: Fault::None, oversize: 0, orig_buf: false, mis: draw_mis(rng), residue: false });
                }
            }
            if !self.cfg.fault_free && self.cfg.suite != Suite::Secretbox && !self.cfg.rform.uses_symmetric_key(self.cfg.suite) && rng.chance(1, 3) {
                plan.push(Event::ForgedWeakKey { len: 1 + rng.usize_below(64), fill: rng.next_u64() % 1000, point: rng.below(4) as u8 });
            }
            plan.reverse();
            self.plan = plan;
        }
        self.plan.pop()
    }

    fn step(&mut self, ev: &Event, out: &mut Out) {
        let suite = self.cfg.suite;
        let rf = self.cfg.rform;
        match ev {
            Event::Seal { len, fill } => {
                let p = self.seal(*len, *fill);
                out.op();
                out.shape(&format!("S{:?}{:?}{}", suite, self.cfg.sform, (*len).min(80)));
                out.note(&format!("seal len={} ct={}", len, hex(&p.combined()[..p.combined().len().min(48)])));
                self.packets.push(p);
            }
            Event::ForgedWeakKey { len, fill, point } => {
                if suite == Suite::Secretbox || rf.uses_symmetric_key(suite) {
                    return;
                }
                // small-order u-coordinates: 0, 1, and the two order-8 points
                let weak: [u8; 32] = match point % 4 {
                    0 => [0u8; 32],
                    1 => {
                        let mut x = [0u8; 32];
                        x[0] = 1;
                        x
                    }
                    2 => [0xe0, 0xeb, 0x7a, 0x7c, 0x3b, 0x41, 0xb8, 0xae, 0x16, 0x56, 0xe3, 0xfa, 0xf1, 0x9f, 0xc4, 0x6a, 0xda, 0x09, 0x8d, 0xeb, 0x9c, 0x32, 0xb1, 0xfd, 0x86, 0x62, 0x05, 0x16, 0x5f, 0x49, 0xb8, 0x00],
                    _ => [0x5f, 0x9c, 0x95, 0xbc, 0xa3, 0x50, 0x8c, 0x24, 0xb1, 0xd0, 0xb1, 0x55, 0x9c, 0x83, 0xef, 0x5b, 0x04, 0x44, 0x5c, 0xc4, 0x58, 0x1c, 0x8e, 0x86, 0xd8, 0x22, 0x4e, 0xdd, 0xd0, 0x9f, 0x11, 0x57],
                };
                // the forger's key: what *anybody* computes against a small-order point
                let k0 = crypto_box_beforenm(&weak, &self.a_sk);
                let plain = pattern(*fill * 4 + 1, *len); // never contains a zero byte
                let mut nonce = [0u8; 24];
                let sealed = suite == Suite::Sealed;
                if sealed {
                    crypto_box_seal_nonce_public(&mut nonce, &weak, &self.b_pk);
                } else {
                    dryoc::rng::copy_randombytes(&mut nonce);
                }
                let mut mac = [0u8; 16];
                let mut body = vec![0u8; *len];
                crypto_box_detached_afternm(&mut body, &mut mac, &plain, &nonce, &k0);
                let p = Packet { nonce, mac, body, epk: if sealed { Some(weak) } else { None }, plain: plain.clone() };
                let d = Delivered { nonce, mac, body: p.body.clone(), combined: p.combined(), key: k0, peer_pk: weak };
                let (res, obs, _peak, _err) = self.receive(&p, &d);
                out.op();
                out.fault("forged.weakkey");
                out.shape(&format!("F{}", rf.name()));
                let verdict = match &res {
                    Ok(Some(_)) => "accept",
                    Ok(None) => "reject",
                    Err(_) => "unwind",
                };
                out.probe(&format!("forged.weakkey.{}", verdict));
                out.note(&format!("forged box under small-order key {} len={} -> {}", point % 4, len, verdict));
                let suite_s = suite_name(suite);
                if let Err((_, msg)) = &res {
                    if msg.starts_with("harness:") || ((rf == RForm::ObjDecryptLocked || rf == RForm::ObjLockedKeyInChild) && msg.contains("locked bytes")) {
                        out.harness_error(format!("environment: {}", msg));
                        return;
                    }
                }
                if let Err((loc, msg)) = &res {
                    out.violate("C04", "c04.panic", site(&[("receiver", &format!("{}.{}", suite_s, rf.name())), ("fault", "forged.weakkey"), ("len_class", ">overhead"), ("panic_site", loc)]), format!("receiver unwound on a box forged under a small-order public key: {} at {}", msg, loc));
                }
                if let Some(o) = obs {
                    if !o.ok {
                        let bad = o.after.iter().zip(o.before.iter()).filter(|(a, b)| a != b && **a != 0).count();
                        if bad > 0 {
                            out.violate(
                                "C17",
                                "c17.msgbuf",
                                site(&[("receiver", &format!("{}.{}", suite_s, rf.name())), ("fault", "forged.weakkey")]),
                                format!("after Err on a box forged under a small-order public key, {} of {} bytes of the caller's message buffer are neither their previous value nor zero", bad, o.after.len()),
                            );
                        }
                    }
                }
            }
            Event::Deliver { slot, fault, oversize, orig_buf, mis, residue } => {
                if self.packets.is_empty() {
                    return; // nothing on the channel (minimised run): no-op
                }
                self.oversize.set(*oversize);
                self.bufcfg.set((*orig_buf, *mis % 8, *residue));
                if *residue {
                    out.fault("buffer.holds_original_ciphertext");
                }
                if *orig_buf {
                    out.fault("buffer.original_length");
                }
                if *mis % 8 != 0 {
                    out.fault("buffer.misaligned");
                }
                let p = self.packets[slot % self.packets.len()].clone();
                let d = self.corrupt(&p, fault, out);
                let identical = self.identical(&p, &d);
                let overhead = if suite == Suite::Sealed { 48 } else { 16 };
                let wire_len = if rf.combined() { d.combined.len() } else { d.body.len() + overhead };
                let (res, obs, peak, err_text) = self.receive(&p, &d);
                out.op();
                out.shape(&format!("D{}{}{}", rf.name(), fault.kind(), identical));
                let verdict = match &res {
                    Ok(Some(_)) => "accept",
                    Ok(None) => "reject",
                    Err(_) => "unwind",
                };
                out.note(&format!("deliver slot={} fault={} identical={} -> {}", slot, fault.kind(), identical, verdict));
                let suite_s = suite_name(suite);
                // ---- coverage cells (C02): (suite, receiver form, len<=64, component, bit)
                if let Fault::Flip { comp, bit } = fault {
                    if p.body.len() <= 64 {
                        out.cell(&format!("{}|{}|{}|{:?}|{}", suite_s, rf.name(), p.body.len(), comp, bit));
                    }
                } else if let Fault::Fill { comp, value } = fault {
                    out.cell(&format!("{}|{}|fill|{:?}|{}", suite_s, rf.name(), comp, value));
                } else if let Fault::Truncate { k } = fault {
                    if p.body.len() <= 64 {
                        out.cell(&format!("{}|{}|{}|trunc|{}", suite_s, rf.name(), p.body.len(), k));
                    }
                }
                // ---- C04: totality
                match &res {
                    Err((_loc, msg)) if ((rf == RForm::ObjDecryptLocked || rf == RForm::ObjLockedKeyInChild) && msg.contains("locked bytes")) || msg.starts_with("harness:") => {
                        // the *environment* refused mlock (no CAP_IPC_LOCK / tiny RLIMIT_MEMLOCK):
                        // that is not a statement about the repository
                        out.harness_error(format!("this environment refuses mlock, the LockedBytes receiver cannot run: {}", msg));
                    }
                    Err((loc, msg)) => {
                        out.probe("receiver.unwound");
                        out.violate(
                            "C04",
                            "c04.panic",
                            site(&[("receiver", &format!("{}.{}", suite_s, rf.name())), ("fault", fault.kind()), ("len_class", len_class(wire_len, overhead)), ("panic_site", loc)]),
                            format!("receiver {}.{} unwound on a {}-byte delivery (fault {:?}): {} at {}", suite_s, rf.name(), wire_len, fault, msg, loc),
                        );
                    }
                    Ok(_) => {}
                }
                let bound = 8 * wire_len + (16 << 20);
                if peak > bound {
                    out.violate(
                        "C04",
                        "c04.alloc_bound",
                        site(&[("receiver", &format!("{}.{}", suite_s, rf.name())), ("len_class", len_class(wire_len, overhead))]),
                        format!("largest single allocation during the call was {} bytes for a {}-byte delivery (bound {})", peak, wire_len, bound),
                    );
                }
                // ---- C02: accept iff identical (an identical delivery is not judged when the caller's
                // buffer is oversize: whether an oversize buffer is served or refused is the
                // implementation's choice; a corrupted delivery must be refused whatever the buffer)
                let accepted = matches!(&res, Ok(Some(_)));
                if *oversize > 0 {
                    out.fault("oversize.buffer");
                }
                if identical && *oversize > 0 {
                    out.probe("deliver.identical.oversize_not_judged");
                } else if identical {
                    out.probe("deliver.identical");
                    let good = matches!(&res, Ok(Some(m)) if *m == p.plain);
                    if !good {
                        out.violate(
                            "C02",
                            "c02.accept_untampered",
                            site(&[("suite", suite_s), ("sender", &format!("{:?}", self.cfg.sform)), ("receiver", rf.name())]),
                            format!("untampered {}-byte message sealed with {:?} and opened with {}: {}", p.plain.len(), self.cfg.sform, rf.name(), match &res { Ok(Some(_)) => "accepted with a different plaintext".to_string(), Ok(None) => "rejected".to_string(), Err((l, m)) => format!("unwound: {} at {}", m, l) }),
                        );
                    }
                } else {
                    out.probe("deliver.corrupted");
                    if accepted {
                        let comp = match fault { Fault::Flip { comp, .. } => format!("{:?}", comp), _ => "-".to_string() };
                        out.violate(
                            "C02",
                            "c02.reject_corrupted",
                            site(&[("suite", suite_s), ("receiver", rf.name()), ("fault", fault.kind()), ("component", &comp)]),
                            format!("a delivery that differs from what was sealed (fault {:?}, message length {}) was accepted by {}", fault, p.plain.len(), rf.name()),
                        );
                    } else {
                        out.probe("deliver.corrupted.rejected");
                        if res.is_err() {
                            out.probe("deliver.corrupted.rejected_by_unwind");
                        }
                    }
                }
                // ---- C17: the error value itself must not carry anything derived from the
                // rejected ciphertext: two rejections of deliveries with the same lengths
                // must read the same
                if let (Ok(None), Some(t)) = (&res, &err_text) {
                    // compared only within one fault kind (and fill value): a different error for a
                    // different *class* of rejection is not evidence of leaked data
                    let fk = match fault {
                        Fault::Fill { value, .. } => format!("{}:{}", fault.kind(), value),
                        _ => fault.kind().to_string(),
                    };
                    // the error may legitimately mention the length of everything the caller passed,
                    // including its (possibly oversize) message buffer
                    let key = (format!("{}+{}{}", fk, *oversize, if *orig_buf { "+orig" } else { "" }), d.combined.len(), d.body.len());
                    match self.err_texts.get(&key) {
                        Some(prev) if prev != t => {
                            out.violate(
                                "C17",
                                "c17.errtext",
                                site(&[("receiver", &format!("{}.{}", suite_s, rf.name()))]),
                                format!("two rejected deliveries of identical lengths produced different error values, so the error depends on the rejected bytes: {:?} vs {:?}", prev, t),
                            );
                        }
                        Some(_) => out.probe("c17.errtext_compared"),
                        None => {
                            self.err_texts.insert(key, t.clone());
                        }
                    }
                }
                // ---- C17: nothing derived from a rejected ciphertext in the caller's buffer
                if let Some(o) = obs {
                    if !o.ok {
                        out.probe("c17.observed_reject");
                        let bad = o.after.iter().zip(o.before.iter()).filter(|(a, b)| a != b && **a != 0).count();
                        if o.after.len() != o.before.len() || bad > 0 {
                            out.violate(
                                "C17",
                                "c17.msgbuf",
                                site(&[("receiver", &format!("{}.{}", suite_s, rf.name())), ("fault", fault.kind())]),
                                format!("after Err, {} of {} bytes of the caller's message buffer are neither their previous value nor zero (fault {:?})", bad, o.after.len(), fault),
                            );
                        }
                    }
                } else if !accepted && res.is_ok() {
                    out.probe("c17.object_api_reject_counted");
                }
            }
        }
    }

    fn shrink(ev: &Event) -> Vec<Event> {
        match ev {
            Event::ForgedWeakKey { len, fill, point } if *len > 1 => vec![Event::ForgedWeakKey { len: 1, fill: *fill, point: *point }, Event::ForgedWeakKey { len: len / 2, fill: *fill, point: *point }],
            Event::ForgedWeakKey { .. } => Vec::new(),
            Event::Seal { len, fill } => {
                let mut v = Vec::new();
                if *len > 0 {
                    v.push(Event::Seal { len: 0, fill: *fill });
                    v.push(Event::Seal { len: len / 2, fill: *fill });
                    v.push(Event::Seal { len: len - 1, fill: *fill });
                }
                if *fill != 0 {
                    v.push(Event::Seal { len: *len, fill: 0 });
                }
                v
            }
            Event::Deliver { slot, fault, oversize, orig_buf, mis, residue } => {
                let residue = *residue;
                let oversize = *oversize;
                let orig_buf = *orig_buf;
                let mis = *mis;
                let mut v = Vec::new();
                if mis > 0 {
                    v.push(Event::Deliver { slot: *slot, fault: fault.clone(), oversize, orig_buf, mis: 0, residue });
                    if mis > 1 {
                        v.push(Event::Deliver { slot: *slot, fault: fault.clone(), oversize, orig_buf, mis: 1, residue });
                    }
                }
                if orig_buf {
                    v.push(Event::Deliver { slot: *slot, fault: fault.clone(), oversize, orig_buf: false, mis, residue });
                }
                if oversize > 1 {
                    v.push(Event::Deliver { slot: *slot, fault: fault.clone(), oversize: 1, orig_buf, mis, residue });
                }
                if *slot > 0 {
                    v.push(Event::Deliver { slot: 0, fault: fault.clone(), oversize, orig_buf, mis, residue });
                }
                match fault {
                    Fault::Flip { comp, bit } if *bit > 0 => {
                        v.push(Event::Deliver { slot: *slot, fault: Fault::Flip { comp: *comp, bit: 0 }, oversize, orig_buf, mis, residue });
                        v.push(Event::Deliver { slot: *slot, fault: Fault::Flip { comp: *comp, bit: bit / 2 }, oversize, orig_buf, mis, residue });
                    }
                    Fault::Truncate { k } if *k > 1 => {
                        v.push(Event::Deliver { slot: *slot, fault: Fault::Truncate { k: 1 }, oversize, orig_buf, mis, residue });
                        v.push(Event::Deliver { slot: *slot, fault: Fault::Truncate { k: k / 2 }, oversize, orig_buf, mis, residue });
                    }
                    Fault::Extend { k, fill } if *k > 1 || *fill != 0 => {
                        v.push(Event::Deliver { slot: *slot, fault: Fault::Extend { k: 1, fill: 0 }, oversize, orig_buf, mis, residue });
                        v.push(Event::Deliver { slot: *slot, fault: Fault::Extend { k: (k / 2).max(1), fill: *fill }, oversize, orig_buf, mis, residue });
                    }
                    Fault::Garbage { len, kind } if *len > 0 || *kind != 0 => {
                        v.push(Event::Deliver { slot: *slot, fault: Fault::Garbage { len: 0, kind: 0 }, oversize, orig_buf, mis, residue });
                        v.push(Event::Deliver { slot: *slot, fault: Fault::Garbage { len: len / 2, kind: *kind }, oversize, orig_buf, mis, residue });
                        v.push(Event::Deliver { slot: *slot, fault: Fault::Garbage { len: len.saturating_sub(1), kind: *kind }, oversize, orig_buf, mis, residue });
                        v.push(Event::Deliver { slot: *slot, fault: Fault::Garbage { len: *len, kind: 0 }, oversize, orig_buf, mis, residue });
                    }
                    Fault::Splice { at, n, fill } if *n > 1 => {
                        v.push(Event::Deliver { slot: *slot, fault: Fault::Splice { at: *at, n: 1, fill: *fill }, oversize, orig_buf, mis, residue });
                    }
                    _ => {}
                }
                v
            }
        }
    }

    fn crash_site(cfg: &Config, ev: &Event) -> Site {
        let fk = match ev {
            Event::Deliver { fault, .. } => fault.kind(),
            Event::ForgedWeakKey { .. } => "forged.weakkey",
            _ => "seal",
        };
        site(&[("receiver", &format!("{}.{}", suite_name(cfg.suite), cfg.rform.name())), ("fault", fk)])
    }

    fn prop_of(cfg: &Config) -> String {
        cfg.prop.clone()
    }
}

impl Drop for BoxWorld {
    fn drop(&mut self) {
        uninstall_rng();
    }
}
