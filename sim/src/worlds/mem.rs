//! Mem world (C14, C15, C19; build N): dryoc's protected-memory layer plus the
//! real kernel. Every call across the libc boundary goes through the S3 shim
//! (`shim.rs`). Reference model: for every live region the promised
//! (protect mode, lock mode, length, contents); for the process the set of
//! locked pages and the blocks handed out by the allocator seam. After every
//! event the kernel's view must equal the model.

use super::shim::{self, Plan, Rights, Vma};
use crate::kit::prng::{pattern, Rng};
use crate::kit::*;
use dryoc::protected::*;
use serde::{Deserialize, Serialize};
use std::alloc::{Allocator, Layout};
use zeroize::Zeroize;

// ---------------------------------------------------------------------------
// type-state plumbing: one trait object per region handle
// ---------------------------------------------------------------------------

#[derive(Clone, Copy, Debug, PartialEq, Eq, Serialize, Deserialize)]
pub enum PM {
    RW,
    RO,
    NA,
}

#[derive(Clone, Copy, Debug, PartialEq, Eq, Serialize, Deserialize)]
pub enum LM {
    L,
    U,
}

#[derive(Clone, Copy, Debug, PartialEq, Eq, Serialize, Deserialize)]
pub enum Trans {
    Mlock,
    Munlock,
    ReadOnly,
    ReadWrite,
    NoAccess,
}

impl Trans {
    fn name(&self) -> &'static str {
        match self {
            Trans::Mlock => "mlock",
            Trans::Munlock => "munlock",
            Trans::ReadOnly => "mprotect_readonly",
            Trans::ReadWrite => "mprotect_readwrite",
            Trans::NoAccess => "mprotect_noaccess",
        }
    }
}

pub enum TransOut {
    NotOffered(Box<dyn Reg>),
    Done(Result<Box<dyn Reg>, String>),
}

pub trait Reg {
    fn pstate(&self) -> (PM, LM);
    fn protected(&self) -> bool {
        true
    }
    fn view(&self) -> Option<&[u8]>;
    fn view_mut(&mut self) -> Option<&mut [u8]>;
    fn trans(self: Box<Self>, t: Trans) -> TransOut;
    fn try_clone(&self) -> Option<Box<dyn Reg>>;
    fn try_resize(&mut self, n: usize) -> bool;
    fn offers(&self, t: Trans) -> bool;
    fn offers_clone(&self) -> bool;
    fn offers_resize(&self) -> bool;
    /// further regions owned by the same object (key pairs): (protect, lock, bytes)
    fn extra_parts(&self) -> Vec<(PM, LM, &[u8])> {
        Vec::new()
    }
}

/// Opaque composite objects built on the protected types outside `protected.rs`
/// (locked key pairs, precomputed keys): no transitions of their own, only
/// construction (Result-returning, may be refused part-way) and drop.
macro_rules! composite {
    ($name:ident, $ty:ty, $p:expr, $l:expr, |$o:ident| $first:expr, |$o2:ident| $extras:expr) => {
        pub struct $name(pub $ty);
        impl Reg for $name {
            fn pstate(&self) -> (PM, LM) {
                ($p, $l)
            }
            fn view(&self) -> Option<&[u8]> {
                let $o = &self.0;
                Some($first)
            }
            fn view_mut(&mut self) -> Option<&mut [u8]> {
                None
            }
            fn trans(self: Box<Self>, _t: Trans) -> TransOut {
                TransOut::NotOffered(self)
            }
            fn try_clone(&self) -> Option<Box<dyn Reg>> {
                None
            }
            fn try_resize(&mut self, _n: usize) -> bool {
                false
            }
            fn offers(&self, _t: Trans) -> bool {
                false
            }
            fn offers_clone(&self) -> bool {
                false
            }
            fn offers_resize(&self) -> bool {
                false
            }
            fn extra_parts(&self) -> Vec<(PM, LM, &[u8])> {
                let $o2 = &self.0;
                $extras
            }
        }
    };
}

composite!(KpLocked, dryoc::dryocbox::protected::LockedKeyPair, PM::RW, LM::L, |o| o.public_key.as_slice(), |o| vec![(PM::RW, LM::L, o.secret_key.as_slice())]);
composite!(KpLockedRO, dryoc::dryocbox::protected::LockedROKeyPair, PM::RO, LM::L, |o| o.public_key.as_slice(), |o| vec![(PM::RO, LM::L, o.secret_key.as_slice())]);
composite!(SkpLocked, dryoc::sign::protected::LockedSigningKeyPair, PM::RW, LM::L, |o| o.public_key.as_slice(), |o| vec![(PM::RW, LM::L, o.secret_key.as_slice())]);
composite!(SkpLockedRO, dryoc::sign::SigningKeyPair<LockedRO<HeapByteArray<32>>, LockedRO<HeapByteArray<64>>>, PM::RO, LM::L, |o| o.public_key.as_slice(), |o| vec![(PM::RO, LM::L, o.secret_key.as_slice())]);
composite!(PrecalcL, dryoc::precalc::PrecalcSecretKey<Locked<HeapByteArray<32>>>, PM::RW, LM::L, |o| o.as_slice(), |_o| Vec::new());
composite!(PrecalcLRO, dryoc::precalc::PrecalcSecretKey<LockedRO<HeapByteArray<32>>>, PM::RO, LM::L, |o| o.as_slice(), |_o| Vec::new());

/// What differs between the two containers.
pub trait Cont: Zeroize + Bytes + MutBytes + NewBytes + Default + Clone + Lockable<Self> + NewLocked<Self> + Sized + 'static {
    const RESIZABLE: bool;
    fn kind() -> String;
    fn resize_plain(&mut self, n: usize);
    fn clone_locked(p: &Locked<Self>) -> Locked<Self>;
    fn clone_locked_ro(p: &LockedRO<Self>) -> LockedRO<Self>;
    fn resize_locked(p: &mut Locked<Self>, n: usize);
    fn resize_unlocked(p: &mut Unlocked<Self>, n: usize);
    fn from_slice_locked(src: &[u8]) -> Result<Locked<Self>, dryoc::Error>;
    fn from_slice_ro_locked(src: &[u8]) -> Result<LockedRO<Self>, dryoc::Error>;
    fn new_bytes_locked() -> Locked<Self>;
    fn new_byte_array_locked(gen: bool) -> Option<Locked<Self>>;
    fn plain_from(src: &[u8]) -> Self;
}

impl Cont for HeapBytes {
    const RESIZABLE: bool = true;
    fn kind() -> String {
        "HeapBytes".into()
    }
    fn resize_plain(&mut self, n: usize) {
        ResizableBytes::resize(self, n, 0)
    }
    fn clone_locked(p: &Locked<Self>) -> Locked<Self> {
        p.clone()
    }
    fn clone_locked_ro(p: &LockedRO<Self>) -> LockedRO<Self> {
        p.clone()
    }
    fn resize_locked(p: &mut Locked<Self>, n: usize) {
        p.resize(n, 0)
    }
    fn resize_unlocked(p: &mut Unlocked<Self>, n: usize) {
        p.resize(n, 0)
    }
    fn from_slice_locked(src: &[u8]) -> Result<Locked<Self>, dryoc::Error> {
        HeapBytes::from_slice_into_locked(src)
    }
    fn from_slice_ro_locked(src: &[u8]) -> Result<LockedRO<Self>, dryoc::Error> {
        HeapBytes::from_slice_into_readonly_locked(src)
    }
    fn new_bytes_locked() -> Locked<Self> {
        <Locked<HeapBytes> as NewBytes>::new_bytes()
    }
    fn new_byte_array_locked(_gen: bool) -> Option<Locked<Self>> {
        None
    }
    fn plain_from(src: &[u8]) -> Self {
        HeapBytes::from(src)
    }
}

impl<const N: usize> Cont for HeapByteArray<N> {
    const RESIZABLE: bool = false;
    fn kind() -> String {
        format!("HeapByteArray<{}>", N)
    }
    fn resize_plain(&mut self, _n: usize) {}
    fn clone_locked(_p: &Locked<Self>) -> Locked<Self> {
        unreachable!()
    }
    fn clone_locked_ro(_p: &LockedRO<Self>) -> LockedRO<Self> {
        unreachable!()
    }
    fn resize_locked(_p: &mut Locked<Self>, _n: usize) {}
    fn resize_unlocked(_p: &mut Unlocked<Self>, _n: usize) {}
    fn from_slice_locked(src: &[u8]) -> Result<Locked<Self>, dryoc::Error> {
        HeapByteArray::<N>::from_slice_into_locked(src)
    }
    fn from_slice_ro_locked(src: &[u8]) -> Result<LockedRO<Self>, dryoc::Error> {
        HeapByteArray::<N>::from_slice_into_readonly_locked(src)
    }
    fn new_bytes_locked() -> Locked<Self> {
        <Locked<HeapByteArray<N>> as NewBytes>::new_bytes()
    }
    fn new_byte_array_locked(gen: bool) -> Option<Locked<Self>> {
        use dryoc::types::NewByteArray;
        Some(if gen { <Locked<HeapByteArray<N>> as NewByteArray<N>>::gen() } else { <Locked<HeapByteArray<N>> as NewByteArray<N>>::new_byte_array() })
    }
    fn plain_from(src: &[u8]) -> Self {
        let mut a = HeapByteArray::<N>::default();
        a.as_mut_slice().copy_from_slice(src);
        a
    }
}

fn io<T: Reg + 'static>(r: Result<T, std::io::Error>) -> TransOut {
    TransOut::Done(r.map(|x| Box::new(x) as Box<dyn Reg>).map_err(|e| e.to_string()))
}

/// An unprotected heap container.
pub struct Plain<A: Cont>(pub A);

impl<A: Cont> Reg for Plain<A> {
    fn pstate(&self) -> (PM, LM) {
        (PM::RW, LM::U)
    }
    fn protected(&self) -> bool {
        false
    }
    fn view(&self) -> Option<&[u8]> {
        Some(self.0.as_slice())
    }
    fn view_mut(&mut self) -> Option<&mut [u8]> {
        Some(self.0.as_mut_slice())
    }
    fn trans(self: Box<Self>, t: Trans) -> TransOut {
        match t {
            Trans::Mlock => io(Lockable::mlock(self.0)),
            _ => TransOut::NotOffered(self),
        }
    }
    fn try_clone(&self) -> Option<Box<dyn Reg>> {
        Some(Box::new(Plain(self.0.clone())))
    }
    fn try_resize(&mut self, n: usize) -> bool {
        if A::RESIZABLE {
            self.0.resize_plain(n);
            true
        } else {
            false
        }
    }
    fn offers(&self, t: Trans) -> bool {
        t == Trans::Mlock
    }
    fn offers_clone(&self) -> bool {
        true
    }
    fn offers_resize(&self) -> bool {
        A::RESIZABLE
    }
}

impl<A: Cont> Reg for Protected<A, traits::ReadWrite, traits::Locked> {
    fn pstate(&self) -> (PM, LM) {
        (PM::RW, LM::L)
    }
    fn view(&self) -> Option<&[u8]> {
        Some(self.as_slice())
    }
    fn view_mut(&mut self) -> Option<&mut [u8]> {
        Some(self.as_mut_slice())
    }
    fn trans(self: Box<Self>, t: Trans) -> TransOut {
        match t {
            Trans::Mlock | Trans::NoAccess => TransOut::NotOffered(self),
            Trans::Munlock => io((*self).munlock()),
            Trans::ReadOnly => io((*self).mprotect_readonly()),
            Trans::ReadWrite => io((*self).mprotect_readwrite()),
        }
    }
    fn try_clone(&self) -> Option<Box<dyn Reg>> {
        if A::RESIZABLE {
            Some(Box::new(A::clone_locked(self)))
        } else {
            None
        }
    }
    fn try_resize(&mut self, n: usize) -> bool {
        if A::RESIZABLE {
            A::resize_locked(self, n);
            true
        } else {
            false
        }
    }
    fn offers(&self, t: Trans) -> bool {
        !matches!(t, Trans::Mlock | Trans::NoAccess)
    }
    fn offers_clone(&self) -> bool {
        A::RESIZABLE
    }
    fn offers_resize(&self) -> bool {
        A::RESIZABLE
    }
}

impl<A: Cont> Reg for Protected<A, traits::ReadOnly, traits::Locked> {
    fn pstate(&self) -> (PM, LM) {
        (PM::RO, LM::L)
    }
    fn view(&self) -> Option<&[u8]> {
        Some(self.as_slice())
    }
    fn view_mut(&mut self) -> Option<&mut [u8]> {
        None
    }
    fn trans(self: Box<Self>, t: Trans) -> TransOut {
        match t {
            Trans::Mlock | Trans::NoAccess => TransOut::NotOffered(self),
            Trans::Munlock => io((*self).munlock()),
            Trans::ReadOnly => io((*self).mprotect_readonly()),
            Trans::ReadWrite => io((*self).mprotect_readwrite()),
        }
    }
    fn try_clone(&self) -> Option<Box<dyn Reg>> {
        if A::RESIZABLE {
            Some(Box::new(A::clone_locked_ro(self)))
        } else {
            None
        }
    }
    fn try_resize(&mut self, _n: usize) -> bool {
        false
    }
    fn offers(&self, t: Trans) -> bool {
        !matches!(t, Trans::Mlock | Trans::NoAccess)
    }
    fn offers_clone(&self) -> bool {
        A::RESIZABLE
    }
    fn offers_resize(&self) -> bool {
        false
    }
}

impl<A: Cont> Reg for Protected<A, traits::NoAccess, traits::Locked> {
    fn pstate(&self) -> (PM, LM) {
        (PM::NA, LM::L)
    }
    fn view(&self) -> Option<&[u8]> {
        None
    }
    fn view_mut(&mut self) -> Option<&mut [u8]> {
        None
    }
    fn trans(self: Box<Self>, t: Trans) -> TransOut {
        match t {
            Trans::Mlock | Trans::NoAccess => TransOut::NotOffered(self),
            Trans::Munlock => io((*self).munlock()),
            Trans::ReadOnly => io((*self).mprotect_readonly()),
            Trans::ReadWrite => io((*self).mprotect_readwrite()),
        }
    }
    fn try_clone(&self) -> Option<Box<dyn Reg>> {
        None
    }
    fn try_resize(&mut self, _n: usize) -> bool {
        false
    }
    fn offers(&self, t: Trans) -> bool {
        !matches!(t, Trans::Mlock | Trans::NoAccess)
    }
    fn offers_clone(&self) -> bool {
        false
    }
    fn offers_resize(&self) -> bool {
        false
    }
}

impl<A: Cont> Reg for Protected<A, traits::ReadWrite, traits::Unlocked> {
    fn pstate(&self) -> (PM, LM) {
        (PM::RW, LM::U)
    }
    fn view(&self) -> Option<&[u8]> {
        Some(self.as_slice())
    }
    fn view_mut(&mut self) -> Option<&mut [u8]> {
        Some(self.as_mut_slice())
    }
    fn trans(self: Box<Self>, t: Trans) -> TransOut {
        match t {
            Trans::Mlock => io(Lock::mlock(*self)),
            Trans::Munlock => io((*self).munlock()),
            Trans::ReadOnly => io((*self).mprotect_readonly()),
            Trans::ReadWrite => io((*self).mprotect_readwrite()),
            Trans::NoAccess => io((*self).mprotect_noaccess()),
        }
    }
    fn try_clone(&self) -> Option<Box<dyn Reg>> {
        Some(Box::new(self.clone()))
    }
    fn try_resize(&mut self, n: usize) -> bool {
        if A::RESIZABLE {
            A::resize_unlocked(self, n);
            true
        } else {
            false
        }
    }
    fn offers(&self, _t: Trans) -> bool {
        true
    }
    fn offers_clone(&self) -> bool {
        true
    }
    fn offers_resize(&self) -> bool {
        A::RESIZABLE
    }
}

impl<A: Cont> Reg for Protected<A, traits::ReadOnly, traits::Unlocked> {
    fn pstate(&self) -> (PM, LM) {
        (PM::RO, LM::U)
    }
    fn view(&self) -> Option<&[u8]> {
        Some(self.as_slice())
    }
    fn view_mut(&mut self) -> Option<&mut [u8]> {
        None
    }
    fn trans(self: Box<Self>, t: Trans) -> TransOut {
        match t {
            Trans::Mlock => io(Lock::mlock(*self)),
            Trans::Munlock => io((*self).munlock()),
            Trans::ReadOnly => io((*self).mprotect_readonly()),
            Trans::ReadWrite => io((*self).mprotect_readwrite()),
            Trans::NoAccess => io((*self).mprotect_noaccess()),
        }
    }
    fn try_clone(&self) -> Option<Box<dyn Reg>> {
        Some(Box::new(self.clone()))
    }
    fn try_resize(&mut self, _n: usize) -> bool {
        false
    }
    fn offers(&self, _t: Trans) -> bool {
        true
    }
    fn offers_clone(&self) -> bool {
        true
    }
    fn offers_resize(&self) -> bool {
        false
    }
}

impl<A: Cont> Reg for Protected<A, traits::NoAccess, traits::Unlocked> {
    fn pstate(&self) -> (PM, LM) {
        (PM::NA, LM::U)
    }
    fn view(&self) -> Option<&[u8]> {
        None
    }
    fn view_mut(&mut self) -> Option<&mut [u8]> {
        None
    }
    fn trans(self: Box<Self>, t: Trans) -> TransOut {
        match t {
            Trans::Mlock => io(Lock::mlock(*self)),
            Trans::Munlock => io((*self).munlock()),
            Trans::ReadOnly => io((*self).mprotect_readonly()),
            Trans::ReadWrite => io((*self).mprotect_readwrite()),
            Trans::NoAccess => io((*self).mprotect_noaccess()),
        }
    }
    fn try_clone(&self) -> Option<Box<dyn Reg>> {
        None
    }
    fn try_resize(&mut self, _n: usize) -> bool {
        false
    }
    fn offers(&self, _t: Trans) -> bool {
        true
    }
    fn offers_clone(&self) -> bool {
        false
    }
    fn offers_resize(&self) -> bool {
        false
    }
}

// ---------------------------------------------------------------------------
// events
// ---------------------------------------------------------------------------

#[derive(Clone, Copy, Debug, PartialEq, Eq, Serialize, Deserialize)]
pub enum Ctor {
    NewLocked,
    NewReadonlyLocked,
    GenLocked,
    GenReadonlyLocked,
    FromSliceLocked,
    FromSliceReadonlyLocked,
    PlainThenMlock,
    StackMlock,
    StackReadonly,
    Plain,
    DefaultLocked,
    NewBytesLocked,
    /// `NewByteArray::new_byte_array()` / `::gen()` on `Locked<HeapByteArray<N>>` (what generic code such as `KeyPair::gen()` with locked key types uses)
    NewByteArrayLocked,
    GenByteArrayLocked,
    // composites outside protected.rs
    KeyPairNewLocked,
    KeyPairGenLocked,
    KeyPairGenReadonlyLocked,
    SignKeyPairNewLocked,
    SignKeyPairGenLocked,
    SignKeyPairGenReadonlyLocked,
    PrecalcLocked,
    PrecalcReadonlyLocked,
}

pub const COMPOSITE_CTORS: [Ctor; 8] = [
    Ctor::KeyPairNewLocked,
    Ctor::KeyPairGenLocked,
    Ctor::KeyPairGenReadonlyLocked,
    Ctor::SignKeyPairNewLocked,
    Ctor::SignKeyPairGenLocked,
    Ctor::SignKeyPairGenReadonlyLocked,
    Ctor::PrecalcLocked,
    Ctor::PrecalcReadonlyLocked,
];

impl Ctor {
    fn name(&self) -> &'static str {
        match self {
            Ctor::NewLocked => "new_locked",
            Ctor::NewReadonlyLocked => "new_readonly_locked",
            Ctor::GenLocked => "gen_locked",
            Ctor::GenReadonlyLocked => "gen_readonly_locked",
            Ctor::FromSliceLocked => "from_slice_into_locked",
            Ctor::FromSliceReadonlyLocked => "from_slice_into_readonly_locked",
            Ctor::PlainThenMlock => "Lockable::mlock",
            Ctor::StackMlock => "StackByteArray::mlock",
            Ctor::StackReadonly => "StackByteArray::mprotect_readonly",
            Ctor::Plain => "plain",
            Ctor::DefaultLocked => "Default::default(locked)",
            Ctor::NewBytesLocked => "NewBytes::new_bytes(locked)",
            Ctor::NewByteArrayLocked => "NewByteArray::new_byte_array(locked)",
            Ctor::GenByteArrayLocked => "NewByteArray::gen(locked)",
            Ctor::KeyPairNewLocked => "KeyPair::new_locked_keypair",
            Ctor::KeyPairGenLocked => "KeyPair::gen_locked_keypair",
            Ctor::KeyPairGenReadonlyLocked => "KeyPair::gen_readonly_locked_keypair",
            Ctor::SignKeyPairNewLocked => "SigningKeyPair::new_locked_keypair",
            Ctor::SignKeyPairGenLocked => "SigningKeyPair::gen_locked_keypair",
            Ctor::SignKeyPairGenReadonlyLocked => "SigningKeyPair::gen_readonly_locked_keypair",
            Ctor::PrecalcLocked => "PrecalcSecretKey::precalculate_locked",
            Ctor::PrecalcReadonlyLocked => "PrecalcSecretKey::precalculate_readonly_locked",
        }
    }
    fn composite(&self) -> bool {
        COMPOSITE_CTORS.contains(self)
    }
    /// does the API signature return a Result?
    fn fallible(&self) -> bool {
        !matches!(self, Ctor::Plain | Ctor::DefaultLocked | Ctor::NewBytesLocked | Ctor::NewByteArrayLocked | Ctor::GenByteArrayLocked)
    }
}

#[derive(Clone, Debug, Serialize, Deserialize)]
pub enum Event {
    /// `array: Some(n)` = HeapByteArray<n>, None = HeapBytes (len applies to from_slice / plain ctors)
    New { slot: usize, ctor: Ctor, array: Option<usize>, len: usize, fill: u64 },
    Trans { slot: usize, t: Trans },
    Clone { slot: usize, to: usize },
    Resize { slot: usize, len: usize },
    Write { slot: usize, fill: u64 },
    Read { slot: usize },
    Drop {
        slot: usize,
        /// the handle is dropped by stack unwinding (the caller panics while holding it)
        #[serde(default)]
        unwinding: bool,
        /// while the handle is dropped the kernel refuses every `madvise` and every `mprotect`
        /// that would change nothing (C15: the wipe must not hinge on such a call)
        #[serde(default)]
        relfault: bool,
    },
    Alloc { aslot: usize, size: usize },
    Dealloc { aslot: usize },
}

impl Event {
    fn kind(&self) -> String {
        match self {
            Event::New { ctor, .. } => ctor.name().to_string(),
            Event::Trans { t, .. } => t.name().to_string(),
            Event::Clone { .. } => "clone".into(),
            Event::Resize { .. } => "resize".into(),
            Event::Write { .. } => "write".into(),
            Event::Read { .. } => "read".into(),
            Event::Drop { unwinding: true, .. } => "drop(unwinding)".into(),
            Event::Drop { .. } => "drop".into(),
            Event::Alloc { .. } => "allocate".into(),
            Event::Dealloc { .. } => "deallocate".into(),
        }
    }
}

#[derive(Clone, Copy, Debug, Serialize, Deserialize, PartialEq)]
pub enum PlanCfg {
    None,
    RefuseFrom { k: u32, errno: i32 },
    RefuseOnce { k: u32, errno: i32 },
    Budget { pages: u32 },
    RefuseAllFrom { k: u32, errno: i32 },
}

impl PlanCfg {
    fn to_plan(self) -> Plan {
        match self {
            PlanCfg::None => Plan::None,
            PlanCfg::RefuseFrom { k, errno } => Plan::RefuseFrom { k, errno },
            PlanCfg::RefuseOnce { k, errno } => Plan::RefuseOnce { k, errno },
            PlanCfg::Budget { pages } => Plan::Budget { pages },
            PlanCfg::RefuseAllFrom { k, errno } => Plan::RefuseAllFrom { k, errno },
        }
    }
    fn name(&self) -> &'static str {
        match self {
            PlanCfg::None => "none",
            PlanCfg::RefuseFrom { .. } => "refuse_from",
            PlanCfg::RefuseOnce { .. } => "refuse_once",
            PlanCfg::Budget { .. } => "budget",
            PlanCfg::RefuseAllFrom { .. } => "refuse_all_from",
        }
    }
}

#[derive(Clone, Debug, Serialize, Deserialize)]
pub struct Config {
    pub prop: String,
    pub rseed: u64,
    pub plan: PlanCfg,
    pub walk_len: usize,
    /// C19: index of the base walk this execution belongs to
    pub base_walk: u64,
    pub bias: String,
    /// C14/C15 only: no cap on locked pages, lengths above the mmap threshold also for locked regions
    #[serde(default)]
    pub big: bool,
    /// C15 only: the process runs under mlockall(MCL_CURRENT | MCL_FUTURE), as hardened
    /// daemons do — madvise-style discards are refused on locked pages
    #[serde(default)]
    pub mlockall: bool,
    /// C19 only: the process's standard error is a pipe whose reader has gone (a daemon whose
    /// log collector died): every write to it fails with EPIPE
    #[serde(default)]
    pub stderr_broken: bool,
}

pub const ARRAY_LENS: [usize; 10] = [0, 1, 16, 32, 64, 4095, 4096, 4097, 8192, 8193];
const SLOTS: usize = 4;
const MAX_LOCK_REQUESTS: u32 = 16;
const MAX_LOCKED_PAGES: usize = 14;

macro_rules! with_array {
    ($n:expr, $f:ident, $($args:expr),*) => {
        match $n {
            0 => $f::<HeapByteArray<0>>($($args),*),
            1 => $f::<HeapByteArray<1>>($($args),*),
            16 => $f::<HeapByteArray<16>>($($args),*),
            32 => $f::<HeapByteArray<32>>($($args),*),
            64 => $f::<HeapByteArray<64>>($($args),*),
            4095 => $f::<HeapByteArray<4095>>($($args),*),
            4096 => $f::<HeapByteArray<4096>>($($args),*),
            4097 => $f::<HeapByteArray<4097>>($($args),*),
            8192 => $f::<HeapByteArray<8192>>($($args),*),
            8193 => $f::<HeapByteArray<8193>>($($args),*),
            _ => Err("unsupported array length".to_string()),
        }
    };
}

fn bx<T: Reg + 'static>(x: T) -> Box<dyn Reg> {
    Box::new(x)
}

/// Generic constructors (both containers).
fn construct<A: Cont>(ctor: Ctor, src: &[u8]) -> Result<Box<dyn Reg>, String> {
    let e = |e: std::io::Error| e.to_string();
    let de = |e: dryoc::Error| format!("{:?}", e);
    match ctor {
        Ctor::NewLocked => A::new_locked().map(bx).map_err(e),
        Ctor::NewReadonlyLocked => A::new_readonly_locked().map(bx).map_err(e),
        Ctor::GenLocked => A::gen_locked().map(bx).map_err(e),
        Ctor::GenReadonlyLocked => A::gen_readonly_locked().map(bx).map_err(e),
        Ctor::FromSliceLocked => A::from_slice_locked(src).map(bx).map_err(de),
        Ctor::FromSliceReadonlyLocked => A::from_slice_ro_locked(src).map(bx).map_err(de),
        Ctor::PlainThenMlock => Lockable::mlock(A::plain_from(src)).map(bx).map_err(e),
        Ctor::Plain => Ok(bx(Plain(A::plain_from(src)))),
        Ctor::DefaultLocked => Ok(bx(<Locked<A> as Default>::default())),
        Ctor::NewBytesLocked => Ok(bx(A::new_bytes_locked())),
        Ctor::NewByteArrayLocked => A::new_byte_array_locked(false).map(bx).ok_or_else(|| "not offered for this container".to_string()),
        Ctor::GenByteArrayLocked => A::new_byte_array_locked(true).map(bx).ok_or_else(|| "not offered for this container".to_string()),
        Ctor::StackMlock | Ctor::StackReadonly => Err("stack ctor on generic path".into()),
        _ => Err("composite ctor on generic path".into()),
    }
}

macro_rules! stack_ctor {
    ($n:expr, $ro:expr, $src:expr) => {{
        let mut s = StackByteArray::<$n>::new_byte_array();
        s.as_mut_slice().copy_from_slice($src);
        if $ro {
            s.mprotect_readonly().map(bx).map_err(|e| e.to_string())
        } else {
            s.mlock().map(bx).map_err(|e| e.to_string())
        }
    }};
}

fn construct_stack(n: usize, ro: bool, src: &[u8]) -> Result<Box<dyn Reg>, String> {
    match n {
        0 => stack_ctor!(0, ro, src),
        1 => stack_ctor!(1, ro, src),
        16 => stack_ctor!(16, ro, src),
        32 => stack_ctor!(32, ro, src),
        64 => stack_ctor!(64, ro, src),
        4095 => stack_ctor!(4095, ro, src),
        4096 => stack_ctor!(4096, ro, src),
        4097 => stack_ctor!(4097, ro, src),
        8192 => stack_ctor!(8192, ro, src),
        8193 => stack_ctor!(8193, ro, src),
        _ => Err("unsupported array length".into()),
    }
}

// ---------------------------------------------------------------------------
// the world
// ---------------------------------------------------------------------------

struct Region {
    h: Option<Box<dyn Reg>>,
    kind: String,
    protected: bool,
    p: PM,
    l: LM,
    ptr: usize,
    len: usize,
    contents: Vec<u8>,
    shrunk: bool,
    hist: Vec<String>,
    extras: Vec<Sub>,
}

struct Sub {
    p: PM,
    l: LM,
    ptr: usize,
    len: usize,
    contents: Vec<u8>,
}

/// one checkable region: a slot's main region or one of its extra parts
struct ViewR<'a> {
    slot: usize,
    kind: &'a str,
    p: PM,
    l: LM,
    ptr: usize,
    len: usize,
    contents: &'a [u8],
    api: Option<&'a [u8]>,
}

#[derive(Clone)]
struct Snap {
    #[allow(dead_code)]
    slot: usize,
    ptr: usize,
    len: usize,
    shrunk: bool,
    kind: String,
}

pub struct MemWorld {
    cfg: Config,
    slots: Vec<Option<Region>>,
    allocs: Vec<Option<(usize, usize)>>, // raw allocator blocks: (ptr, size)
    page: usize,
    scratch: Vec<u8>,
    vmas: Vec<Vma>,
    n_events: usize,
    finished: bool,
    lock_requests_seen: u32,
    refusals_seen: u32,
    ok: bool,
    last_hist: String,
    /// the process's real standard error while `stderr_broken` has replaced fd 2
    saved_stderr: Option<i32>,
}

/// Replace fd 2 by the write end of a pipe whose read end is closed; returns the saved fd.
fn break_stderr() -> Option<i32> {
    unsafe {
        let saved = libc::dup(2);
        if saved < 0 {
            return None;
        }
        let mut fds = [0 as libc::c_int; 2];
        if libc::pipe(fds.as_mut_ptr()) != 0 {
            libc::close(saved);
            return None;
        }
        libc::close(fds[0]);
        libc::dup2(fds[1], 2);
        libc::close(fds[1]);
        Some(saved)
    }
}

fn restore_stderr(saved: i32) {
    unsafe {
        libc::dup2(saved, 2);
        libc::close(saved);
    }
}

fn len_class(n: usize, page: usize) -> &'static str {
    if n == 0 {
        "0"
    } else if n % page == 1 {
        "k*page+1"
    } else if n % page == 0 {
        "k*page"
    } else if n % page == page - 1 {
        "k*page-1"
    } else if n < page {
        "<page"
    } else {
        ">page"
    }
}

fn nonzero_fill(fill: u64) -> u64 {
    // pattern() with fill ≡ 1 (mod 4) never contains a zero byte
    fill * 4 + 1
}

/// The caller's secret for a Write event. Mostly bytes without a single zero;
/// one fill in five has a run of zero bytes at the start of the buffer and of
/// every page (zero padding / zero header fields followed by secret data) —
/// zeros are never evidence of anything, the non-zero rest still is.
fn secret_pattern(fill: u64, n: usize, page: usize) -> Vec<u8> {
    let mut v = pattern(nonzero_fill(fill), n);
    if fill % 5 == 0 {
        let run = [16usize, 32, 64, 17][(fill / 5 % 4) as usize];
        let mut off = 0;
        while off < n {
            let end = (off + run).min(n);
            v[off..end].fill(0);
            off += page;
        }
    }
    v
}

impl MemWorld {
    fn want_rights(p: PM) -> Rights {
        match p {
            PM::RW => Rights { r: true, w: true },
            PM::RO => Rights { r: true, w: false },
            PM::NA => Rights { r: false, w: false },
        }
    }

    fn locked_pages_model(&self) -> usize {
        let mut pages: Vec<usize> = Vec::new();
        for r in self.slots.iter().flatten() {
            let mut parts: Vec<(LM, usize, usize)> = vec![(r.l, r.ptr, r.len)];
            parts.extend(r.extras.iter().map(|x| (x.l, x.ptr, x.len)));
            for (l, ptr, len) in parts {
                if l == LM::L && len > 0 {
                    let first = ptr / self.page;
                    let last = (ptr + len - 1) / self.page;
                    for pg in first..=last {
                        if !pages.contains(&pg) {
                            pages.push(pg);
                        }
                    }
                }
            }
        }
        pages.len()
    }

    fn viol(&self, out: &mut Out, c14_check: &str, site_: Site, detail: String, subject_slot: Option<usize>, this_slot: Option<usize>) {
        out.violate("C14", c14_check, site_.clone(), detail.clone());
        // C19 judges the same invariants, but only once a refusal has fired — and not when the
        // environment also refuses to *unlock* (then locked pages outliving their region are the
        // environment's doing; only "no panic" and "wiped" are judged under that plan)
        if self.refusals_seen > 0 && !matches!(self.cfg.plan, PlanCfg::RefuseAllFrom { .. }) {
            let mut s = site_;
            s.insert("invariant".into(), c14_check.to_string());
            s.insert("region".into(), if subject_slot.is_some() && subject_slot == this_slot { "subject".into() } else { "other".into() });
            out.violate("C19", "c19.other_region_invalid", s, detail);
        }
    }

    /// All C14 invariants for every live region + the process, against the kernel's view.
    fn check_all(&mut self, out: &mut Out, evkind: &str, subject: Option<usize>) {
        if self.cfg.mlockall {
            return; // everything is locked by design in this configuration; only C15's observer judges
        }
        let page = self.page;
        let mut vmas = std::mem::take(&mut self.vmas);
        let mut scratch = std::mem::take(&mut self.scratch);
        if !shim::smaps(&mut scratch, &mut vmas) {
            out.harness_error("cannot read /proc/self/smaps".into());
        }
        let mut views: Vec<ViewR> = Vec::new();
        for (si, r) in self.slots.iter().enumerate() {
            if let Some(r) = r {
                views.push(ViewR { slot: si, kind: &r.kind, p: r.p, l: r.l, ptr: r.ptr, len: r.len, contents: &r.contents, api: r.h.as_ref().and_then(|h| h.view()) });
                for x in &r.extras {
                    views.push(ViewR { slot: si, kind: &r.kind, p: x.p, l: x.l, ptr: x.ptr, len: x.len, contents: &x.contents, api: None });
                }
            }
        }
        for r in views.iter() {
            let si = r.slot;
            if r.len == 0 {
                continue;
            }
            let state = format!("{:?},{:?}", r.p, r.l);
            let lc = len_class(r.len, page);
            let first_pg = r.ptr / page;
            let last_pg = (r.ptr + r.len - 1) / page;
            let want = Self::want_rights(r.p);
            for pg in first_pg..=last_pg {
                let pos = if pg == last_pg && pg != first_pg { "last" } else if pg == first_pg { if first_pg == last_pg { "only" } else { "first" } } else { "inner" };
                // first and last data byte within this page
                let a0 = (pg * page).max(r.ptr);
                let a1 = ((pg + 1) * page - 1).min(r.ptr + r.len - 1);
                for a in [a0, a1] {
                    let got = shim::probe_rights(a);
                    out.probe("probe.rights");
                    if got != want {
                        self.viol(
                            out,
                            "c14.rights",
                            site(&[("container", &r.kind), ("len_class", lc), ("state", &state), ("page", pos), ("event", evkind)]),
                            format!("{} of {} bytes in state ({}): the {} data page has effective rights {} but the type promises {} (after {})", r.kind, r.len, state, pos, got.name(), want.name(), evkind),
                            subject,
                            Some(si),
                        );
                        break;
                    }
                }
                match shim::vma_of(&vmas, pg * page) {
                    Some(v) => {
                        if (v.r, v.w) != (want.r, want.w) {
                            self.viol(
                                out,
                                "c14.rights",
                                site(&[("container", &r.kind), ("len_class", lc), ("state", &state), ("page", pos), ("event", evkind)]),
                                format!("{} of {} bytes in state ({}): /proc/self/smaps shows the {} data page as {}{} but the type promises {} (after {})", r.kind, r.len, state, pos, if v.r { "r" } else { "-" }, if v.w { "w" } else { "-" }, want.name(), evkind),
                                subject,
                                Some(si),
                            );
                        }
                        out.probe("probe.lock");
                        if v.locked != (r.l == LM::L) {
                            self.viol(
                                out,
                                "c14.lock",
                                site(&[("container", &r.kind), ("len_class", lc), ("state", &state), ("page", pos), ("event", evkind)]),
                                format!("{} of {} bytes in state ({}): VM_LOCKED of the {} data page is {} but the type says {:?} (after {})", r.kind, r.len, state, pos, v.locked, r.l, evkind),
                                subject,
                                Some(si),
                            );
                        }
                    }
                    None => self.viol(out, "c14.rights", site(&[("container", &r.kind), ("len_class", lc), ("state", &state), ("page", pos), ("event", evkind)]), "data page is not mapped".into(), subject, Some(si)),
                }
            }
            // guards
            {
                // the page just before the first page that holds data (the data need not start
                // at a page boundary: an allocator may right-align it against the aft guard)
                let g = shim::probe_rights(r.ptr / page * page - 1);
                out.probe("probe.guard");
                if g.r || g.w {
                    self.viol(out, "c14.guard_before", site(&[("container", &r.kind), ("len_class", lc)]), format!("the page before the data of a {}-byte {} is accessible ({})", r.len, r.kind, g.name()), subject, Some(si));
                }
                match shim::live_block_containing(r.ptr) {
                    Some(b) => {
                        // Somewhere between the end of the data and the end of the block the
                        // allocator obtained there must be an inaccessible page. (Where exactly —
                        // "no more than one page beyond the end of the allocation" — depends on
                        // the capacity, which only the raw Allocate events know; it is judged
                        // exactly there.)
                        let mut a = (r.ptr + r.len + page - 1) / page * page;
                        let mut found = false;
                        while a < b.base + b.size {
                            let g2 = shim::probe_rights(a);
                            if !g2.r && !g2.w {
                                found = true;
                                break;
                            }
                            a += page;
                        }
                        if !found {
                            self.viol(
                                out,
                                "c14.guard_after",
                                site(&[("container", &r.kind), ("len_class", lc)]),
                                format!("no inaccessible page between the end of the data of a {}-byte {} and the end of its {}-byte block", r.len, r.kind, b.size),
                                subject,
                                Some(si),
                            );
                        }
                    }
                    None => out.harness_error(format!("no live allocator block contains the data pointer of slot {} ({})", si, r.kind)),
                }
            }
            // contents
            let mut buf = vec![0u8; r.len];
            if shim::peek(r.ptr, &mut buf).is_some() {
                if buf[..] != r.contents[..] {
                    let bad = buf.iter().zip(r.contents.iter()).filter(|(a, b)| a != b).count();
                    self.viol(out, "c14.contents", site(&[("container", &r.kind), ("event", evkind)]), format!("{} of {} bytes differ from the model after {}", bad, r.len, evkind), subject, Some(si));
                }
            }
            if let Some(v) = r.api {
                if v != &r.contents[..] {
                    self.viol(out, "c14.contents", site(&[("container", &r.kind), ("event", evkind)]), format!("the API view differs from the model after {}", evkind), subject, Some(si));
                }
            }
        }
        // process
        if let Some(lck) = shim::vmlck(&mut scratch) {
            // The data pages of regions promised Locked must be locked (that much at least);
            // an implementation may lock more of the *same allocations* (spare capacity,
            // guard pages) but nothing outside them — in particular nothing that belonged to
            // a region that is gone or that is promised Unlocked.
            let want = self.locked_pages_model() * page;
            let mut upper = 0usize;
            let mut seen: Vec<usize> = Vec::new();
            for r in self.slots.iter().flatten() {
                let mut parts: Vec<(LM, usize, usize)> = vec![(r.l, r.ptr, r.len)];
                parts.extend(r.extras.iter().map(|x| (x.l, x.ptr, x.len)));
                for (l, ptr, len) in parts {
                    if l == LM::L && len > 0 {
                        if let Some(b) = shim::live_block_containing(ptr) {
                            if !seen.contains(&b.base) {
                                seen.push(b.base);
                                upper += b.size;
                            }
                        }
                    }
                }
            }
            out.probe("probe.vmlck");
            // every locked VMA must lie inside the allocation of a live region promised Locked
            let mut blocks: Vec<(usize, usize)> = Vec::new();
            for r in self.slots.iter().flatten() {
                let mut parts: Vec<(LM, usize, usize)> = vec![(r.l, r.ptr, r.len)];
                parts.extend(r.extras.iter().map(|x| (x.l, x.ptr, x.len)));
                for (l, ptr, len) in parts {
                    if l == LM::L && len > 0 {
                        if let Some(b) = shim::live_block_containing(ptr) {
                            blocks.push((b.base, b.base + b.size));
                        }
                    }
                }
            }
            let mut stray = 0usize;
            for v in vmas.iter().filter(|v| v.locked) {
                let mut a = v.start;
                while a < v.end {
                    if !blocks.iter().any(|(lo, hi)| *lo <= a && a < *hi) {
                        stray += page;
                    }
                    a += page;
                }
            }
            if stray > 0 {
                self.viol(out, "c14.vmlck", site(&[("event", evkind)]), format!("{} bytes are VM_LOCKED outside the allocation of any live region promised Locked (after {})", stray, evkind), None, None);
            } else if lck < want || lck > upper.max(want) {
                self.viol(out, "c14.vmlck", site(&[("event", evkind)]), format!("VmLck is {} bytes but the live regions promised Locked cover {} bytes of data (their allocations: {} bytes) (after {})", lck, want, upper, evkind), None, None);
            }
        } else {
            out.harness_error("cannot read VmLck".into());
        }
        self.vmas = vmas;
        self.scratch = scratch;
    }

    fn snapshot(&self) -> Vec<Snap> {
        let mut v = Vec::new();
        for (i, r) in self.slots.iter().enumerate() {
            if let Some(r) = r {
                v.push(Snap { slot: i, ptr: r.ptr, len: r.len, shrunk: r.shrunk, kind: r.kind.clone() });
                for x in &r.extras {
                    v.push(Snap { slot: i, ptr: x.ptr, len: x.len, shrunk: false, kind: r.kind.clone() });
                }
            }
        }
        v
    }

    /// C15 observer: every block released during the event must be all-zero.
    fn judge_releases(&mut self, out: &mut Out, snaps: &[Snap], evkind: &str, path_hint: &str) {
        let page = self.page;
        for rel in shim::take_releases() {
            out.probe("release.observed");
            out.probe_n("release.bytes_inspected", rel.size as u64);
            let owner = snaps.iter().find(|s| s.ptr != 0 && s.ptr >= rel.base && s.ptr < rel.base + rel.size);
            let path = match owner {
                Some(s) if s.shrunk && (path_hint == "drop" || path_hint == "clone_drop") => "shrink_then_drop".to_string(),
                Some(_) => path_hint.to_string(),
                None => format!("{}(temp)", path_hint),
            };
            out.probe(&format!("release.path.{}", path));
            if rel.nonzero > 0 {
                let wher = if rel.nonzero_guard > 0 {
                    "guard"
                } else {
                    match owner {
                        Some(s) if rel.base + rel.first_nonzero_off < s.ptr + s.len => "data",
                        Some(_) => "spare",
                        None => "data",
                    }
                };
                let kind = owner.map(|s| s.kind.clone()).unwrap_or_else(|| "temporary buffer".into());
                out.violate(
                    "C15",
                    "c15.release_nonzero",
                    site(&[("path", &path), ("container", &kind), ("where", wher)]),
                    format!("a {}-byte allocation of {} reached free() with {} non-zero bytes (first at block offset {}, last at {}; data starts at {}) during {}", rel.size, kind, rel.nonzero, rel.first_nonzero_off, rel.last_nonzero_off, page, evkind),
                );
                if self.refusals_seen > 0 {
                    out.violate("C19", "c19.residual", site(&[("event", evkind), ("what", "released_unwiped")]), format!("after a refused lock, a {}-byte allocation was released with {} non-zero bytes during {}", rel.size, rel.nonzero, evkind));
                }
            }
        }
    }

    fn refresh_ptr_contents(r: &mut Region) {
        if let Some(v) = r.h.as_ref().and_then(|h| h.view()) {
            r.len = v.len();
            if !v.is_empty() {
                r.ptr = v.as_ptr() as usize;
            }
            r.contents = v.to_vec();
        }
    }

    fn make_region(h: Box<dyn Reg>, kind: String, evkind: &str) -> Region {
        let (p, l) = h.pstate();
        let protected = h.protected();
        let extras: Vec<Sub> = h.extra_parts().into_iter().map(|(p, l, b)| Sub { p, l, ptr: b.as_ptr() as usize, len: b.len(), contents: b.to_vec() }).collect();
        let mut r = Region { h: Some(h), kind, protected, p, l, ptr: 0, len: 0, contents: Vec::new(), shrunk: false, hist: vec![evkind.to_string()], extras };
        Self::refresh_ptr_contents(&mut r);
        r
    }

    fn sync_shim_counters(&mut self, out: &mut Out) {
        let s = shim::st();
        if s.lock_requests > self.lock_requests_seen {
            out.probe_n("shim.lock_requests", (s.lock_requests - self.lock_requests_seen) as u64);
            self.lock_requests_seen = s.lock_requests;
        }
        while self.refusals_seen < s.refusals {
            self.refusals_seen += 1;
            out.fault(&format!("mlock_refused.{}", self.cfg.plan.name()));
        }
        if s.overflow {
            out.harness_error("shim ledger overflow".into());
        }
        let _ = shim::take_recs();
    }

    fn kind_of(array: Option<usize>, plain: bool) -> String {
        let base = match array {
            Some(n) => format!("HeapByteArray<{}>", n),
            None => "HeapBytes".to_string(),
        };
        if plain {
            format!("{}(plain)", base)
        } else {
            base
        }
    }
}

fn construct_composite(ctor: Ctor) -> Result<Box<dyn Reg>, String> {
    let e = |e: std::io::Error| e.to_string();
    let pk: [u8; 32] = pattern(5, 32).try_into().unwrap();
    let sk: [u8; 32] = pattern(9, 32).try_into().unwrap();
    match ctor {
        Ctor::KeyPairNewLocked => dryoc::dryocbox::protected::LockedKeyPair::new_locked_keypair().map(|k| bx(KpLocked(k))).map_err(e),
        Ctor::KeyPairGenLocked => dryoc::dryocbox::protected::LockedKeyPair::gen_locked_keypair().map(|k| bx(KpLocked(k))).map_err(e),
        Ctor::KeyPairGenReadonlyLocked => dryoc::dryocbox::protected::LockedROKeyPair::gen_readonly_locked_keypair().map(|k| bx(KpLockedRO(k))).map_err(e),
        Ctor::SignKeyPairNewLocked => dryoc::sign::protected::LockedSigningKeyPair::new_locked_keypair().map(|k| bx(SkpLocked(k))).map_err(e),
        Ctor::SignKeyPairGenLocked => dryoc::sign::protected::LockedSigningKeyPair::gen_locked_keypair().map(|k| bx(SkpLocked(k))).map_err(e),
        Ctor::SignKeyPairGenReadonlyLocked => dryoc::sign::SigningKeyPair::<LockedRO<HeapByteArray<32>>, LockedRO<HeapByteArray<64>>>::gen_readonly_locked_keypair().map(|k| bx(SkpLockedRO(k))).map_err(e),
        Ctor::PrecalcLocked => dryoc::precalc::PrecalcSecretKey::precalculate_locked(&pk, &sk).map(|k| bx(PrecalcL(k))).map_err(e),
        Ctor::PrecalcReadonlyLocked => dryoc::precalc::PrecalcSecretKey::precalculate_readonly_locked(&pk, &sk).map(|k| bx(PrecalcLRO(k))).map_err(e),
        _ => Err("not a composite ctor".into()),
    }
}

fn construct_dyn(ctor: Ctor, array: Option<usize>, src: &[u8]) -> Result<Box<dyn Reg>, String> {
    if ctor.composite() {
        return construct_composite(ctor);
    }
    match (ctor, array) {
        (Ctor::StackMlock, Some(n)) => construct_stack(n, false, src),
        (Ctor::StackReadonly, Some(n)) => construct_stack(n, true, src),
        (Ctor::StackMlock, None) | (Ctor::StackReadonly, None) => Err("stack ctor needs an array".into()),
        (c, Some(n)) => with_array!(n, construct, c, src),
        (c, None) => construct::<HeapBytes>(c, src),
    }
}

impl World for MemWorld {
    const NAME: &'static str = "mem";
    type Config = Config;
    type Event = Event;

    fn gen_config(rng: &mut Rng, prop: &str, _tier: Tier, run: u64) -> Config {
        // For C19 the kit seeds `rng` from the *base walk* index (run / 48) and
        // the plan is selected by run % 48: every refusal index and budget of a
        // walk is enumerated.
        let (plan, base) = if prop == "C19" {
            let j = (run % C19_PLANS_PER_WALK) as u32;
            let plan = match j {
                0 => PlanCfg::None,
                // every errno mlock(2) documents for a refusal, persistently from the k-th request on
                1..=16 => PlanCfg::RefuseFrom { k: j, errno: [libc::EAGAIN, libc::ENOMEM, libc::EPERM][(j % 3) as usize] },
                17..=32 => PlanCfg::RefuseOnce { k: j - 16, errno: libc::EAGAIN },
                33..=47 => PlanCfg::Budget { pages: j - 33 },
                _ => PlanCfg::RefuseAllFrom { k: j - 47, errno: libc::EPERM },
            };
            (plan, run / C19_PLANS_PER_WALK)
        } else if prop == "C15" && rng.chance(1, 4) {
            // C15 also runs under C19's fault plans (error paths release memory too)
            let plan = match rng.below(4) {
                0 => PlanCfg::RefuseFrom { k: 1 + rng.below(8) as u32, errno: *rng.pick(&[libc::ENOMEM, libc::EAGAIN, libc::EPERM]) },
                1 => PlanCfg::RefuseOnce { k: 1 + rng.below(8) as u32, errno: libc::EAGAIN },
                2 => PlanCfg::RefuseAllFrom { k: 1 + rng.below(8) as u32, errno: libc::EPERM },
                _ => PlanCfg::Budget { pages: rng.below(6) as u32 },
            };
            (plan, run)
        } else {
            (PlanCfg::None, run)
        };
        let rseed = rng.next_u64();
        let walk_len = 8 + rng.usize_below(23);
        let big = prop != "C19" && plan == PlanCfg::None && rng.chance(1, 10);
        let mlockall = prop == "C15" && plan == PlanCfg::None && !big && rng.chance(1, 12);
        // every fourth base walk of C19 (not under the deny-everything plan, where the drop path
        // itself reports munlock failures on stderr)
        let stderr_broken = prop == "C19" && base % 4 == 1 && !matches!(plan, PlanCfg::RefuseAllFrom { .. });
        Config { prop: prop.to_string(), rseed, plan, walk_len, base_walk: base, bias: prop.to_string(), big, mlockall, stderr_broken }
    }

    fn new(cfg: &Config) -> Self {
        if let Err(e) = shim::init() {
            panic!("harness: {}", e);
        }
        shim::reset(cfg.plan.to_plan());
        // randomness for gen_* constructors: non-zero bytes from the simulated generator
        let mut r = Rng::new(cfg.rseed, 0x3e3, 0);
        dryoc::rng::verif::set_source(Some(Box::new(move |dest: &mut [u8]| {
            r.fill(dest);
            for b in dest.iter_mut() {
                if *b == 0 {
                    *b = 0x5a;
                }
            }
        })));
        let page = shim::st().page;
        if cfg.mlockall {
            unsafe {
                libc::mlockall(libc::MCL_CURRENT | libc::MCL_FUTURE);
            }
        }
        MemWorld { cfg: cfg.clone(), slots: (0..SLOTS).map(|_| None).collect(), allocs: vec![None, None], page, scratch: Vec::with_capacity(1 << 16), vmas: Vec::with_capacity(256), n_events: 0, finished: false, lock_requests_seen: 0, refusals_seen: 0, ok: true, last_hist: String::new(), saved_stderr: if cfg.stderr_broken && std::env::var("VERIF_VERBOSE").is_err() { break_stderr() } else { None } }
    }

    fn next_event(&mut self, rng: &mut Rng) -> Option<Event> {
        if self.n_events >= self.cfg.walk_len {
            return None;
        }
        self.n_events += 1;
        let bias = self.cfg.bias.as_str();
        let live: Vec<usize> = (0..SLOTS).filter(|i| self.slots[*i].is_some()).collect();
        let free: Vec<usize> = (0..SLOTS).filter(|i| self.slots[*i].is_none()).collect();
        let locks_left = self.lock_requests_seen < MAX_LOCK_REQUESTS;
        let big = self.cfg.big;
        let pages_ok = big || self.locked_pages_model() + 4 <= MAX_LOCKED_PAGES;
        // weights: new, trans, clone, resize, write, read, drop, alloc, dealloc
        let mut w = [0u32; 9];
        if !free.is_empty() {
            w[0] = if live.len() < 2 { 40 } else { 14 };
        }
        if !live.is_empty() {
            w[1] = 30;
            w[2] = if free.is_empty() { 0 } else { 8 };
            w[3] = 14;
            w[4] = 10;
            w[5] = 4;
            w[6] = 10;
        }
        w[7] = if self.allocs.iter().any(|a| a.is_none()) { 3 } else { 0 };
        w[8] = if self.allocs.iter().any(|a| a.is_some()) { 4 } else { 0 };
        match bias {
            "C15" => {
                w[3] *= 3;
                w[6] *= 3;
                w[2] *= 2;
                w[4] *= 2;
            }
            "C19" => {
                w[0] *= 2;
                w[2] *= 2;
                w[3] *= 2;
            }
            _ => {}
        }
        // lengths above glibc's mmap threshold (128 KiB): only for containers that are not locked
        // ("big" runs: one in four of those is beyond 1 MiB / 256 pages, where a page-count held in a byte wraps)
        let pick_huge = |rng: &mut Rng| -> usize {
            if big && rng.chance(1, 4) {
                *rng.pick(&[1048576usize, 1048577, 1052672, 1056768, 1060000, 2097152, 2097153])
            } else {
                *rng.pick(&[65536usize, 65537, 131072, 131073, 140000, 196608, 200000, 262144, 262145])
            }
        };
        let pick_len = |rng: &mut Rng| -> usize {
            match rng.below(10) {
                0..=6 => *rng.pick(&ARRAY_LENS),
                7 => rng.usize_below(200),
                8 => *rng.pick(&[100usize, 5000, 12288, 12289, 8191]),
                _ => rng.usize_below(3 * 4096),
            }
        };
        match rng.weighted(&w) {
            0 => {
                let slot = *rng.pick(&free);
                let array = if rng.chance(1, 2) { Some(*rng.pick(&ARRAY_LENS)) } else { None };
                let mut ctors: Vec<Ctor> = vec![Ctor::Plain];
                if locks_left && pages_ok {
                    ctors.extend_from_slice(&[Ctor::NewLocked, Ctor::NewReadonlyLocked, Ctor::GenLocked, Ctor::GenReadonlyLocked, Ctor::FromSliceLocked, Ctor::FromSliceLocked, Ctor::FromSliceReadonlyLocked, Ctor::PlainThenMlock, Ctor::DefaultLocked, Ctor::NewBytesLocked]);
                    if array.is_some() {
                        ctors.push(Ctor::StackMlock);
                        ctors.push(Ctor::NewByteArrayLocked);
                        ctors.push(Ctor::GenByteArrayLocked);
                    }
                    // composites lock two regions: keep inside the walk's lock-request cap
                    if self.lock_requests_seen + 2 <= MAX_LOCK_REQUESTS {
                        for c in COMPOSITE_CTORS.iter() {
                            ctors.push(*c);
                        }
                    }
                }
                if array.is_some() {
                    ctors.push(Ctor::StackReadonly);
                }
                let ctor = *rng.pick(&ctors);
                let array = if ctor.composite() { None } else { array };
                let len = match array {
                    Some(n) => n,
                    None if ctor.composite() => 32,
                    None if (ctor == Ctor::Plain && rng.chance(1, 12)) || (big && rng.chance(1, 3)) => pick_huge(rng),
                    None => pick_len(rng),
                };
                Some(Event::New { slot, ctor, array, len, fill: rng.next_u64() % 1000 })
            }
            1 => {
                let slot = *rng.pick(&live);
                let r = self.slots[slot].as_ref().unwrap();
                let h = r.h.as_ref().unwrap();
                let mut ts: Vec<Trans> = [Trans::Mlock, Trans::Munlock, Trans::ReadOnly, Trans::ReadWrite, Trans::NoAccess].iter().copied().filter(|t| h.offers(*t)).collect();
                if !(locks_left && pages_ok) || (r.len > 3 * 4096 && !big) {
                    ts.retain(|t| *t != Trans::Mlock);
                }
                if ts.is_empty() {
                    return Some(Event::Read { slot });
                }
                Some(Event::Trans { slot, t: *rng.pick(&ts) })
            }
            2 => {
                let cands: Vec<usize> = live.iter().copied().filter(|s| self.slots[*s].as_ref().unwrap().h.as_ref().unwrap().offers_clone()).collect();
                if cands.is_empty() || !(locks_left && pages_ok) {
                    return Some(Event::Read { slot: *rng.pick(&live) });
                }
                Some(Event::Clone { slot: *rng.pick(&cands), to: *rng.pick(&free) })
            }
            3 => {
                let cands: Vec<usize> = live.iter().copied().filter(|s| self.slots[*s].as_ref().unwrap().h.as_ref().unwrap().offers_resize()).collect();
                if cands.is_empty() {
                    return Some(Event::Write { slot: *rng.pick(&live), fill: rng.next_u64() % 1000 });
                }
                let slot = *rng.pick(&cands);
                let locked = self.slots[slot].as_ref().unwrap().l == LM::L;
                if locked && !(locks_left && pages_ok) {
                    return Some(Event::Read { slot });
                }
                let cur = self.slots[slot].as_ref().unwrap().len;
                let len = match rng.below(if locked && !big { 6 } else { 7 }) {
                    0 => 0,
                    1 => cur / 2,
                    2 => cur + 1 + rng.usize_below(64),
                    3 => cur + 4096,
                    6 => {
                        if rng.chance(1, 3) {
                            pick_huge(rng)
                        } else {
                            cur.saturating_sub(1 + rng.usize_below(64))
                        }
                    }
                    _ => pick_len(rng),
                };
                Some(Event::Resize { slot, len })
            }
            4 => Some(Event::Write { slot: *rng.pick(&live), fill: rng.next_u64() % 1000 }),
            5 => Some(Event::Read { slot: *rng.pick(&live) }),
            6 => Some(Event::Drop { slot: *rng.pick(&live), unwinding: rng.chance(1, 4), relfault: (self.cfg.prop == "C15" || self.cfg.prop == "C14") && self.cfg.plan == PlanCfg::None && rng.chance(1, 5) }),
            7 => {
                let aslot = self.allocs.iter().position(|a| a.is_none()).unwrap();
                Some(Event::Alloc { aslot, size: if rng.chance(1, 2) { *rng.pick(&[1usize, 8, 4095, 4096, 4097, 8192, 8193]) } else { 1 + rng.usize_below(3 * 4096) } })
            }
            _ => {
                let aslot = self.allocs.iter().position(|a| a.is_some()).unwrap();
                Some(Event::Dealloc { aslot })
            }
        }
    }

    fn step(&mut self, ev: &Event, out: &mut Out) {
        let evkind = ev.kind();
        let snaps = self.snapshot();
        let under_plan = self.cfg.plan != PlanCfg::None;
        let mut subject: Option<usize> = None;
        let mut path_hint = "drop";
        out.shape(&evkind);
        match ev {
            Event::New { slot, ctor, array, len, fill } => {
                let slot = slot % SLOTS;
                if self.slots[slot].is_some() {
                    return;
                }
                subject = Some(slot);
                path_hint = "ctor";
                let n = array.unwrap_or(*len);
                let src = secret_pattern(*fill, n, 4096);
                shim::arm();
                let r = guarded(|| construct_dyn(*ctor, *array, &src));
                shim::disarm();
                out.op();
                let kind = if ctor.composite() { ctor.name().split("::").next().unwrap_or("composite").to_string() } else { Self::kind_of(*array, *ctor == Ctor::Plain) };
                out.cell(&format!("new|{}|{}|{}", ctor.name(), if array.is_some() { "array" } else { "bytes" }, len_class(n, self.page)));
                match r {
                    Ok(Ok(h)) => {
                        let mut reg = Self::make_region(h, kind, &evkind);
                        // what the constructor promises about the contents
                        let expect: Option<Vec<u8>> = match ctor {
                            Ctor::FromSliceLocked | Ctor::FromSliceReadonlyLocked | Ctor::PlainThenMlock | Ctor::StackMlock | Ctor::StackReadonly | Ctor::Plain => Some(src.clone()),
                            Ctor::NewLocked | Ctor::NewReadonlyLocked | Ctor::DefaultLocked | Ctor::NewBytesLocked => Some(vec![0u8; if array.is_some() { n } else { 0 }]),
                            Ctor::KeyPairNewLocked | Ctor::SignKeyPairNewLocked => Some(vec![0u8; 32]),
                            _ => None,
                        };
                        if let Some(e) = expect {
                            // what a constructor puts into a fresh region is not part of C14's
                            // statement (transitions must not change contents): counted, not judged
                            if reg.contents != e {
                                out.probe("ctor.contents_unexpected");
                            }
                        }
                        if matches!(ctor, Ctor::GenLocked | Ctor::GenReadonlyLocked) {
                            path_hint = "ctor";
                        }
                        out.note(&format!("new {} {} -> ok state={:?},{:?} len={}", evkind, reg.kind, reg.p, reg.l, reg.len));
                        reg.hist = vec![evkind.clone()];
                        self.slots[slot] = Some(reg);
                    }
                    Ok(Err(e)) => {
                        out.note(&format!("new {} -> err", evkind));
                        out.probe("ctor.err");
                        path_hint = "error_path";
                        let _ = e;
                    }
                    Err((loc, msg)) => {
                        out.note(&format!("new {} -> unwind", evkind));
                        path_hint = "error_path";
                        if ctor.fallible() {
                            let cont = if ctor.composite() { "composite".to_string() } else { Self::kind_of(*array, false) };
                            if under_plan {
                                out.violate("C19", "c19.panic", site(&[("event", &evkind), ("container", &cont)]), format!("{} on {} (signature returns Result) panicked under plan {:?}: {} at {}", evkind, cont, self.cfg.plan, msg, loc));
                            } else {
                                out.violate("C14", "c14.crash", site(&[("event", &evkind), ("state", "-")]), format!("{} on {} panicked without any injected fault: {} at {}", evkind, cont, msg, loc));
                            }
                        } else {
                            out.probe("allowed_panic");
                            if !under_plan {
                                out.violate("C14", "c14.crash", site(&[("event", &evkind), ("state", "-")]), format!("{} panicked without any injected fault: {} at {}", evkind, msg, loc));
                            }
                        }
                    }
                }
            }
            Event::Trans { slot, t } => {
                let slot = slot % SLOTS;
                let mut reg = match self.slots[slot].take() {
                    Some(r) => r,
                    None => return,
                };
                subject = Some(slot);
                path_hint = "error_path";
                let h = reg.h.take().unwrap();
                if !h.offers(*t) {
                    reg.h = Some(h);
                    self.slots[slot] = Some(reg);
                    return;
                }
                let before = (reg.p, reg.l);
                shim::arm();
                let r = guarded(move || h.trans(*t));
                shim::disarm();
                out.op();
                out.cell(&format!("trans|{}|{:?},{:?}|{}|{}", t.name(), before.0, before.1, if reg.kind.starts_with("HeapBytes") { "bytes" } else { "array" }, len_class(reg.len, self.page)));
                match r {
                    Ok(TransOut::Done(Ok(h2))) => {
                        let (p, l) = h2.pstate();
                        reg.p = p;
                        reg.l = l;
                        reg.protected = true;
                        if reg.kind.ends_with("(plain)") {
                            reg.kind = reg.kind.trim_end_matches("(plain)").to_string();
                        }
                        reg.h = Some(h2);
                        reg.hist.push(evkind.clone());
                        out.note(&format!("trans {} slot={} {:?} -> ok {:?},{:?}", t.name(), slot, before, p, l));
                        self.slots[slot] = Some(reg);
                    }
                    Ok(TransOut::Done(Err(_e))) => {
                        // the handle was consumed; the region must have been released (wiped, unlocked)
                        out.note(&format!("trans {} slot={} {:?} -> err (region consumed)", t.name(), slot, before));
                        out.probe("trans.err");
                        reg.hist.push(format!("{}:err", evkind));
                        self.dead_hist(reg);
                    }
                    Ok(TransOut::NotOffered(h)) => {
                        reg.h = Some(h);
                        self.slots[slot] = Some(reg);
                        return;
                    }
                    Err((loc, msg)) => {
                        out.note(&format!("trans {} slot={} -> unwind", t.name(), slot));
                        reg.hist.push(format!("{}:panic", evkind));
                        let st = format!("{:?},{:?}", before.0, before.1);
                        if under_plan {
                            out.violate("C19", "c19.panic", site(&[("event", &evkind), ("container", &reg.kind)]), format!("{} on {} in state ({}) panicked under plan {:?}: {} at {}", evkind, reg.kind, st, self.cfg.plan, msg, loc));
                        } else {
                            out.violate("C14", "c14.crash", site(&[("event", &evkind), ("state", &st)]), format!("{} on {} in state ({}) panicked: {} at {}", evkind, reg.kind, st, msg, loc));
                        }
                        self.dead_hist(reg);
                    }
                }
            }
            Event::Clone { slot, to } => {
                let slot = slot % SLOTS;
                let to = to % SLOTS;
                if self.slots[to].is_some() || slot == to {
                    return;
                }
                let reg = match self.slots[slot].as_ref() {
                    Some(r) => r,
                    None => return,
                };
                let h = reg.h.as_ref().unwrap();
                if !h.offers_clone() {
                    return;
                }
                subject = Some(to);
                path_hint = "clone";
                shim::arm();
                let r = guarded(|| h.try_clone());
                shim::disarm();
                out.op();
                out.cell(&format!("clone|{:?},{:?}|{}", reg.p, reg.l, len_class(reg.len, self.page)));
                match r {
                    Ok(Some(h2)) => {
                        let src_contents = reg.contents.clone();
                        let src_state = (reg.p, reg.l);
                        let kind = reg.kind.clone();
                        let mut nr = Self::make_region(h2, kind, "clone");
                        if nr.contents != src_contents {
                            out.violate("C14", "c14.contents", site(&[("container", &nr.kind), ("event", "clone")]), "the clone's contents differ from the original".into());
                        }
                        if (nr.p, nr.l) != src_state {
                            out.harness_error(format!("clone changed the type state {:?} -> {:?}", src_state, (nr.p, nr.l)));
                        }
                        nr.hist = vec!["clone".into()];
                        out.note(&format!("clone slot={} -> slot={} len={}", slot, to, nr.len));
                        self.slots[to] = Some(nr);
                    }
                    Ok(None) => {}
                    Err((loc, msg)) => {
                        out.note("clone -> unwind");
                        out.probe("allowed_panic");
                        if !under_plan {
                            out.violate("C14", "c14.crash", site(&[("event", "clone"), ("state", &format!("{:?},{:?}", reg.p, reg.l))]), format!("clone panicked without any injected fault: {} at {}", msg, loc));
                        }
                    }
                }
            }
            Event::Resize { slot, len } => {
                let slot = slot % SLOTS;
                let reg = match self.slots[slot].as_mut() {
                    Some(r) => r,
                    None => return,
                };
                let h = reg.h.as_mut().unwrap();
                if !h.offers_resize() {
                    return;
                }
                subject = Some(slot);
                let old_len = reg.len;
                path_hint = if reg.l == LM::L { "locked_resize" } else if *len > old_len { "grow" } else { "shrink" };
                let newlen = *len;
                shim::arm();
                let r = guarded(|| h.try_resize(newlen));
                shim::disarm();
                out.op();
                out.cell(&format!("resize|{:?},{:?}|{}->{}", reg.p, reg.l, len_class(old_len, self.page), len_class(newlen, self.page)));
                match r {
                    Ok(_) => {
                        let mut expect = reg.contents.clone();
                        expect.resize(newlen, 0);
                        Self::refresh_ptr_contents(reg);
                        if newlen < old_len && reg.l == LM::U {
                            reg.shrunk = true;
                        }
                        if reg.l == LM::L {
                            reg.shrunk = false;
                        }
                        if reg.contents != expect {
                            let k = reg.kind.clone();
                            out.violate("C14", "c14.contents", site(&[("container", &k), ("event", "resize")]), format!("after resize {} -> {} the contents are not the old prefix followed by zeros", old_len, newlen));
                        }
                        reg.hist.push("resize".into());
                        out.note(&format!("resize slot={} {} -> {}", slot, old_len, newlen));
                    }
                    Err((loc, msg)) => {
                        out.note("resize -> unwind");
                        out.probe("allowed_panic");
                        path_hint = "error_path";
                        // documented to panic under refusal: the region stays as it was
                        Self::refresh_ptr_contents(reg);
                        if !under_plan {
                            let st = format!("{:?},{:?}", reg.p, reg.l);
                            out.violate("C14", "c14.crash", site(&[("event", "resize"), ("state", &st)]), format!("resize panicked without any injected fault: {} at {}", msg, loc));
                        }
                    }
                }
            }
            Event::Write { slot, fill } => {
                let slot = slot % SLOTS;
                let reg = match self.slots[slot].as_mut() {
                    Some(r) => r,
                    None => return,
                };
                let n = reg.len;
                if let Some(v) = reg.h.as_mut().unwrap().view_mut() {
                    let pat = secret_pattern(*fill, n, 4096);
                    v.copy_from_slice(&pat);
                    reg.contents = pat;
                    out.op();
                    out.note(&format!("write slot={} len={}", slot, n));
                }
            }
            Event::Read { slot } => {
                let slot = slot % SLOTS;
                if let Some(reg) = self.slots[slot].as_ref() {
                    if let Some(v) = reg.h.as_ref().unwrap().view() {
                        out.op();
                        out.note(&format!("read slot={} h={:016x}", slot, crate::kit::prng::fnv1a(v)));
                    }
                }
            }
            Event::Drop { slot, unwinding, relfault } => {
                let slot = slot % SLOTS;
                let mut reg = match self.slots[slot].take() {
                    Some(r) => r,
                    None => return,
                };
                subject = Some(slot);
                path_hint = if reg.hist.first().map(|s| s.as_str()) == Some("clone") { "clone_drop" } else { "drop" };
                let h = reg.h.take();
                let unwinding = *unwinding;
                shim::set_relfault(*relfault);
                let fired_before = shim::relfault_fired();
                let fired_mp_before = shim::relfault_fired_mprotect();
                shim::arm();
                let r = if unwinding {
                    // the caller panics while it still owns the container: the drop runs during unwinding
                    let r = guarded(move || {
                        let _owned = h;
                        std::panic::resume_unwind(Box::new("simulated caller panic"));
                    });
                    match r {
                        Err(_) => Ok(()),
                        Ok(()) => Ok(()),
                    }
                } else {
                    guarded(move || drop(h))
                };
                shim::disarm();
                shim::set_relfault(false);
                out.op();
                if shim::relfault_fired() > fired_before {
                    out.fault("release_time_syscall_refused");
                }
                if shim::relfault_fired_mprotect() > fired_mp_before {
                    out.fault("release_time_noop_mprotect_refused");
                }
                if unwinding {
                    out.fault("caller_panic_while_owning");
                }
                out.cell(&format!("drop|{:?},{:?}|{}|{}|{}", reg.p, reg.l, len_class(reg.len, self.page), reg.shrunk, unwinding));
                out.note(&format!("drop slot={} state={:?},{:?} len={}", slot, reg.p, reg.l, reg.len));
                if *relfault {
                    out.note(&format!("release-time refusal: {} calls refused, {} of them no-op mprotect", shim::relfault_fired() - fired_before, shim::relfault_fired_mprotect() - fired_mp_before));
                }
                if let Err((loc, msg)) = r {
                    out.violate("C14", "c14.crash", site(&[("event", "drop"), ("state", &format!("{:?},{:?}", reg.p, reg.l))]), format!("drop panicked: {} at {}", msg, loc));
                }
                reg.hist.push("drop".into());
                self.dead_hist(reg);
            }
            Event::Alloc { aslot, size } => {
                let aslot = aslot % self.allocs.len();
                if self.allocs[aslot].is_some() || *size == 0 {
                    return;
                }
                path_hint = "allocator";
                shim::arm();
                let r = guarded(|| PageAlignedAllocator.allocate(Layout::from_size_align(*size, 1).unwrap()));
                shim::disarm();
                out.op();
                out.cell(&format!("alloc|{}", len_class(*size, self.page)));
                if let Ok(Ok(p)) = r {
                    let ptr = p.as_ptr() as *mut u8 as usize;
                    self.allocs[aslot] = Some((ptr, *size));
                    out.note(&format!("allocate {} -> ok", size));
                    // exact guard placement: the first inaccessible page after the data
                    // starts no more than one page beyond round_up(size)
                    let page = self.page;
                    let lc = len_class(*size, page);
                    if { let g = shim::probe_rights(ptr / page * page - 1); g.r || g.w } {
                        out.violate("C14", "c14.guard_before", site(&[("container", "allocator"), ("len_class", lc)]), format!("allocate({}): the page before the first data page is accessible", size));
                    }
                    // first page boundary at or after the end of the allocation
                    let first_page = ptr / page * page;
                    let end_up = (ptr + *size + page - 1) / page * page;
                    let mut a = first_page;
                    let mut found: Option<usize> = None;
                    while a <= end_up + 2 * page {
                        let g = shim::probe_rights(a);
                        if !g.r && !g.w {
                            found = Some(a);
                            break;
                        }
                        a += page;
                    }
                    let ok = matches!(found, Some(o) if o >= end_up && o <= end_up + page);
                    if !ok {
                        out.violate("C14", "c14.guard_after", site(&[("container", "allocator"), ("len_class", lc)]), format!("allocate({}): first inaccessible page after the data starts {:?} bytes after the data pointer, expected within [{}, {}]", size, found.map(|f| f - ptr), end_up - ptr, end_up + page - ptr));
                    }
                    // the data region itself must be usable
                    for a in [ptr, ptr + *size - 1] {
                        let g = shim::probe_rights(a);
                        if !(g.r && g.w) {
                            out.violate("C14", "c14.rights", site(&[("container", "allocator"), ("len_class", lc), ("state", "RW,U"), ("page", "data"), ("event", "allocate")]), format!("allocate({}): data byte at offset {} has rights {}", size, a - ptr, g.name()));
                        }
                    }
                    // fill with a non-zero pattern: the caller's secret
                    unsafe { std::ptr::write_bytes(ptr as *mut u8, 0xA7, *size) };
                } else {
                    out.note("allocate -> failed");
                }
            }
            Event::Dealloc { aslot } => {
                let aslot = aslot % self.allocs.len();
                if let Some((ptr, size)) = self.allocs[aslot].take() {
                    path_hint = "allocator";
                    // a well-behaved caller of the raw allocator wipes its own bytes; what is
                    // judged here is only that deallocate restores the guard pages' rights
                    unsafe { std::ptr::write_bytes(ptr as *mut u8, 0, size) };
                    shim::arm();
                    let r = guarded(|| unsafe { PageAlignedAllocator.deallocate(std::ptr::NonNull::new_unchecked(ptr as *mut u8), Layout::from_size_align(size, 1).unwrap()) });
                    shim::disarm();
                    out.op();
                    out.note(&format!("deallocate {}", size));
                    if let Err((loc, msg)) = r {
                        out.violate("C14", "c14.crash", site(&[("event", "deallocate"), ("state", "-")]), format!("deallocate panicked: {} at {}", msg, loc));
                    }
                }
            }
        }
        self.sync_shim_counters(out);
        self.judge_releases(out, &snaps, &evkind, path_hint);
        self.check_all(out, &evkind, subject);
    }

    fn finish(&mut self, out: &mut Out) {
        if self.finished {
            return;
        }
        self.finished = true;
        // drop whatever is still alive, then the process must be clean
        let snaps = self.snapshot();
        for i in 0..SLOTS {
            if let Some(mut reg) = self.slots[i].take() {
                let h = reg.h.take();
                shim::arm();
                let _ = guarded(move || drop(h));
                shim::disarm();
                reg.hist.push("drop".into());
                self.dead_hist(reg);
            }
        }
        for a in 0..self.allocs.len() {
            if let Some((ptr, size)) = self.allocs[a].take() {
                unsafe { std::ptr::write_bytes(ptr as *mut u8, 0, size) };
                shim::arm();
                let _ = guarded(|| unsafe { PageAlignedAllocator.deallocate(std::ptr::NonNull::new_unchecked(ptr as *mut u8), Layout::from_size_align(size, 1).unwrap()) });
                shim::disarm();
            }
        }
        self.sync_shim_counters(out);
        self.judge_releases(out, &snaps, "final drop", "drop");
        let page = self.page;
        let mut vmas = std::mem::take(&mut self.vmas);
        let mut scratch = std::mem::take(&mut self.scratch);
        let hist_class = self.last_hist.clone();
        if self.cfg.mlockall {
            unsafe {
                libc::munlockall();
            }
        }
        if let Some(lck) = shim::vmlck(&mut scratch) {
            if lck != 0 && !self.cfg.mlockall {
                out.violate("C14", "c14.residual_lock", site(&[("history", &hist_class)]), format!("after the last handle was dropped VmLck is {} bytes (history of the last region(s): {})", lck, hist_class));
                if self.refusals_seen > 0 && !matches!(self.cfg.plan, PlanCfg::RefuseAllFrom { .. }) {
                    out.violate("C19", "c19.residual", site(&[("event", "end"), ("what", "vmlck")]), format!("after a refused lock and all drops, VmLck is {} bytes", lck));
                }
            }
        }
        shim::smaps(&mut scratch, &mut vmas);
        let mut bad_rights = 0;
        let mut bad_lock = 0;
        let mut bad_fork = 0;
        let mut leaked_unwiped = false;
        for b in shim::all_blocks() {
            let mut a = b.base;
            while a < b.base + b.size {
                if let Some(v) = shim::vma_of(&vmas, a) {
                    if !(v.r && v.w) {
                        bad_rights += 1;
                    }
                    if v.dontfork && !b.live {
                        bad_fork += 1;
                    }
                    if v.locked {
                        bad_lock += 1;
                    }
                }
                a += page;
            }
            if b.live {
                // never handed back: a forgotten region is neither wiped nor released
                out.probe("block.never_released");
                let mut buf = vec![0u8; b.size - 2 * page];
                let nz = if shim::peek(b.base + page, &mut buf).is_some() { buf.iter().filter(|x| **x != 0).count() } else { 0 };
                if nz > 0 {
                    // C15 speaks of memory that is given back; a block that is kept (pooled or
                    // leaked) is only C19's business ("everything is still wiped ... on drop")
                    out.probe("block.never_released_nonzero");
                    if self.refusals_seen > 0 {
                        leaked_unwiped = true;
                        out.violate("C19", "c19.residual", site(&[("event", "end"), ("what", "leaked_unwiped")]), format!("after a refused lock a {}-byte allocation was neither wiped nor released ({} non-zero bytes)", b.size, nz));
                    }
                }
            }
        }
        if bad_rights > 0 {
            out.violate("C14", "c14.residual_rights", site(&[("history", &hist_class)]), format!("after the last handle was dropped {} pages of released allocations still have altered rights", bad_rights));
            if self.refusals_seen > 0 {
                out.violate("C19", "c19.residual", site(&[("event", "end"), ("what", "rights")]), format!("after a refused lock and all drops, {} pages are left protected", bad_rights));
            }
        }
        if bad_lock > 0 {
            out.violate("C14", "c14.residual_lock", site(&[("history", &hist_class)]), format!("after the last handle was dropped {} pages of released allocations are still VM_LOCKED", bad_lock));
        }
        if bad_fork > 0 {
            // memory that went back to the system allocator but is absent in every forked child
            out.violate("C14", "c14.residual_rights", site(&[("history", &hist_class), ("what", "dontfork")]), format!("after the last handle was dropped {} pages of released allocations are still marked MADV_DONTFORK (a forked child cannot access memory the allocator hands out again)", bad_fork));
        }
        if self.cfg.mlockall {
            unsafe {
                libc::munlockall();
            }
            out.probe("env.mlockall_run");
        }
        if self.saved_stderr.is_some() {
            out.fault("stderr_is_a_broken_pipe");
        }
        // make the process clean for the next run whatever happened
        for b in shim::all_blocks() {
            unsafe {
                libc::syscall(libc::SYS_munlock, b.base, b.size);
            }
        }
        // blocks this run has just reported as leaked *and unwiped* are handed back by the harness,
        // so that a leaking build does not slow every later run of the worker down (an ever longer
        // /proc/self/smaps); blocks that are merely kept (a pooling allocator) are left alone
        if leaked_unwiped && shim::release_leaked() > 0 {
            out.probe("block.leaked_released_by_harness");
        }
        self.vmas = vmas;
        self.scratch = scratch;
        out.note("finish");
        if self.cfg.plan != PlanCfg::None && self.refusals_seen == 0 {
            out.probe("plan.not_reached");
        }
        if self.cfg.plan != PlanCfg::None && self.refusals_seen > 0 {
            out.probe("plan.fired");
        }
    }

    fn shrink(ev: &Event) -> Vec<Event> {
        match ev {
            Event::New { slot, ctor, array, len, fill } => {
                let mut v = Vec::new();
                if array.is_none() && *len > 1 {
                    v.push(Event::New { slot: *slot, ctor: *ctor, array: None, len: 1, fill: *fill });
                    v.push(Event::New { slot: *slot, ctor: *ctor, array: None, len: len / 2, fill: *fill });
                    v.push(Event::New { slot: *slot, ctor: *ctor, array: None, len: len - 1, fill: *fill });
                }
                if let Some(n) = array {
                    for m in ARRAY_LENS.iter().filter(|m| **m < *n && **m > 0) {
                        v.push(Event::New { slot: *slot, ctor: *ctor, array: Some(*m), len: *m, fill: *fill });
                    }
                }
                v
            }
            Event::Resize { slot, len } if *len > 1 => vec![Event::Resize { slot: *slot, len: 1 }, Event::Resize { slot: *slot, len: len / 2 }, Event::Resize { slot: *slot, len: len - 1 }],
            Event::Alloc { aslot, size } if *size > 1 => vec![Event::Alloc { aslot: *aslot, size: 1 }, Event::Alloc { aslot: *aslot, size: size / 2 }, Event::Alloc { aslot: *aslot, size: size - 1 }],
            _ => vec![],
        }
    }

    fn crash_site(_cfg: &Config, ev: &Event) -> Site {
        site(&[("event", &ev.kind()), ("state", "?")])
    }

    fn prop_of(cfg: &Config) -> String {
        cfg.prop.clone()
    }

    fn rng_index(prop: &str, run: u64) -> u64 {
        if prop == "C19" {
            run / C19_PLANS_PER_WALK
        } else {
            run
        }
    }
}

pub const C19_PLANS_PER_WALK: u64 = 56;

impl MemWorld {
    fn dead_hist(&mut self, reg: Region) {
        // history class of the most recently released region: kinds of events, consecutive duplicates folded
        let mut h: Vec<String> = Vec::new();
        for k in reg.hist {
            if h.last() != Some(&k) {
                h.push(k);
            }
        }
        self.last_hist = h.join(">");
        let _ = (reg.protected, self.ok);
    }
}

impl Drop for MemWorld {
    fn drop(&mut self) {
        // unwinding out of a run: release handles inside an armed section so the
        // block table stays consistent, then clean the process
        for i in 0..SLOTS {
            if let Some(mut reg) = self.slots[i].take() {
                let h = reg.h.take();
                shim::arm();
                let _ = guarded(move || drop(h));
                shim::disarm();
            }
        }
        let _ = shim::take_releases();
        if self.cfg.mlockall {
            unsafe {
                libc::munlockall();
            }
        }
        dryoc::rng::verif::set_source(None);
        if let Some(fd) = self.saved_stderr.take() {
            restore_stderr(fd);
        }
    }
}
