pub mod chunk;
