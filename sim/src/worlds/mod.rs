pub mod boxw;
pub mod chunk;
pub mod rngw;
pub mod sodium;
pub mod stream;
pub mod verifier;
