//! Chunk world (C08): the I/O layer that feeds an incremental hash / MAC /
//! signer cuts the byte stream wherever it likes (short reads, zero-length
//! reads). Reference model: everything fed so far + the one-shot function.

use crate::kit::prng::{pattern, Rng};
use crate::kit::*;
use dryoc::classic::crypto_auth::*;
use dryoc::classic::crypto_generichash::*;
use dryoc::classic::crypto_hash::*;
use dryoc::classic::crypto_onetimeauth::*;
use dryoc::classic::crypto_sign::*;
use serde::{Deserialize, Serialize};

#[derive(Clone, Debug, Serialize, Deserialize, PartialEq)]
pub enum Prim {
    GhClassic { outlen: usize, keylen: usize },
    /// object API: variant 0 = <32,32>, 1 = <64,64>, 2 = <16,16>, 3 = <32,64>,
    /// 4 = <32,32> keyed with a 48-byte `Vec<u8>` (a container longer than KEY_LENGTH)
    GhObj { variant: u8, keyed: bool },
    AuthClassic,
    AuthObj,
    OtaClassic,
    OtaObj,
    ShaClassic,
    ShaObj,
    SignClassic,
    SignObj,
}

impl Prim {
    fn name(&self) -> &'static str {
        match self {
            Prim::GhClassic { .. } => "generichash.classic",
            Prim::GhObj { .. } => "generichash.object",
            Prim::AuthClassic => "auth.classic",
            Prim::AuthObj => "auth.object",
            Prim::OtaClassic => "onetimeauth.classic",
            Prim::OtaObj => "onetimeauth.object",
            Prim::ShaClassic => "sha512.classic",
            Prim::ShaObj => "sha512.object",
            Prim::SignClassic => "sign.classic",
            Prim::SignObj => "sign.object",
        }
    }
    fn block(&self) -> usize {
        match self {
            Prim::OtaClassic | Prim::OtaObj => 16,
            _ => 128,
        }
    }
    fn holds_back_full_block(&self) -> bool {
        matches!(self, Prim::GhClassic { .. } | Prim::GhObj { .. })
    }
}

#[derive(Clone, Copy, Debug, Serialize, Deserialize, PartialEq)]
pub enum Policy {
    UniformSmall,
    Dribble,
    BlockAligned,
    OffByOne,
    TopUp,
    Huge,
    Mixed,
    /// a small piece, then pieces of >= 64 KiB (exact powers of two and off-by-small), then the rest
    BigPieces,
}

#[derive(Clone, Debug, Serialize, Deserialize)]
pub struct Config {
    pub prop: String,
    pub prim: Prim,
    pub msg_len: usize,
    pub fill: u64,
    pub key_fill: u64,
    pub policy: Policy,
    pub backend: String,
    /// 0 = seeded pattern; n > 0 = entry n of the special-operand corpus (Poly1305 carry vectors)
    #[serde(default)]
    pub special: u8,
}

#[derive(Clone, Debug, Serialize, Deserialize)]
pub enum Event {
    Feed { n: usize },
    /// like `Feed`, but the object is handed to another thread for this read (a fresh thread
    /// that has just finished an unrelated computation of the same family): an incremental
    /// state must not depend on the thread that continues it
    FeedElsewhere { n: usize },
    Final,
    /// between two reads, an unrelated computation of the same primitive family (one-shot and
    /// incremental, over n bytes under another key) runs to completion on the same thread:
    /// objects must not share hidden state
    Other { n: usize },
}

enum St {
    GhC(GenericHashState),
    Gh3232(dryoc::generichash::GenericHash<32, 32>),
    Gh6464(dryoc::generichash::GenericHash<64, 64>),
    Gh1616(dryoc::generichash::GenericHash<16, 16>),
    Gh3264(dryoc::generichash::GenericHash<32, 64>),
    Gh3232Vec(dryoc::generichash::GenericHash<32, 32>),
    AuthC(AuthState),
    /// (authenticator, verifier twin for the genuine code, verifier twin for a wrong candidate)
    AuthO(dryoc::auth::Auth, dryoc::auth::Auth, dryoc::auth::Auth),
    OtaC(OnetimeauthState),
    OtaO(dryoc::onetimeauth::OnetimeAuth, dryoc::onetimeauth::OnetimeAuth, dryoc::onetimeauth::OnetimeAuth),
    ShaC(Sha512State),
    ShaO(dryoc::sha512::Sha512),
    SignC(SignerState, SignerState),
    /// (signer, verifier, a second signer whose signature goes into a `Vec<u8>`)
    SignO(dryoc::sign::IncrementalSigner, dryoc::sign::IncrementalSigner, dryoc::sign::IncrementalSigner),
    Done,
}

pub struct ChunkWorld {
    cfg: Config,
    msg: Vec<u8>,
    key: Vec<u8>,
    fed: usize,
    st: St,
    finalised: bool,
    n_events: usize,
    /// object MAC flavours: (wrong candidate, accepted by the incremental verifier, accepted by the one-shot verifier)
    parity: Option<(&'static str, bool, bool)>,
    /// further incremental-vs-one-shot discrepancies found while finalising: (flavour, detail)
    extra: Vec<(&'static str, String)>,
}

/// A code that is not the genuine one: a flipped bit, or the genuine code cut short / extended
/// (the object API takes the code in a variable-length container).
fn wrong_candidate(mac: &[u8], sel: usize) -> (&'static str, Vec<u8>) {
    let mut v = mac.to_vec();
    match sel % 7 {
        0 => {
            v[sel / 7 % mac.len()] ^= 1 << (sel % 8);
            ("bit flipped", v)
        }
        1 => ("empty", Vec::new()),
        2 => {
            v.truncate(1);
            ("first byte only", v)
        }
        3 => {
            v.truncate(mac.len() / 2);
            ("first half", v)
        }
        4 => {
            v.truncate(mac.len() - 1);
            ("last byte missing", v)
        }
        5 => {
            v.push(0);
            ("one byte appended", v)
        }
        _ => {
            v.extend_from_slice(mac);
            ("code twice", v)
        }
    }
}

/// Operands known to exercise the carry chains of the Poly1305 limbs (RFC 7539
/// appendix A.3 #5-#11 and two r = 1 constructions): (key, message). Sampling
/// random bytes meets such accumulator values with probability ~2^-38 per
/// block, so the schedules are also run over this small corpus.
pub fn special_operands(n: u8) -> Option<([u8; 32], Vec<u8>)> {
    let mut key = [0u8; 32];
    let ff = [0xffu8; 16];
    let blk = |first: u8, rest: u8| -> Vec<u8> {
        let mut b = vec![rest; 16];
        b[0] = first;
        b
    };
    let mut m: Vec<u8> = Vec::new();
    match n {
        1 => {
            key[0] = 2;
            m.extend_from_slice(&ff);
        }
        2 => {
            key[0] = 2;
            key[16..].copy_from_slice(&ff);
            m.extend(blk(2, 0));
        }
        3 => {
            key[0] = 1;
            m.extend_from_slice(&ff);
            m.extend(blk(0xf0, 0xff));
            m.extend(blk(0x11, 0));
        }
        4 => {
            key[0] = 1;
            m.extend_from_slice(&ff);
            m.extend(blk(0xfb, 0xfe));
            m.extend(blk(0x01, 0x01));
        }
        5 => {
            key[0] = 2;
            m.extend(blk(0xfd, 0xff));
        }
        6 | 7 => {
            key[0] = 1;
            key[8] = 4;
            m.extend_from_slice(&[0xE3, 0x35, 0x94, 0xD7, 0x50, 0x5E, 0x43, 0xB9, 0, 0, 0, 0, 0, 0, 0, 0]);
            m.extend_from_slice(&[0x33, 0x94, 0xD7, 0x50, 0x5E, 0x43, 0x79, 0xCD, 1, 0, 0, 0, 0, 0, 0, 0]);
            m.extend_from_slice(&[0u8; 16]);
            if n == 6 {
                m.extend(blk(1, 0));
            }
        }
        8 => {
            key[0] = 1;
            key[16..].copy_from_slice(&[0xa5; 16]);
            m.extend_from_slice(&[0u8; 48]);
            m.extend_from_slice(&ff);
            m.extend_from_slice(&[0x01; 16]);
        }
        9 => {
            // clamped maximum r, all-0xff data: every limb product carries
            key[..16].copy_from_slice(&[0xff, 0xff, 0xff, 0x0f, 0xfc, 0xff, 0xff, 0x0f, 0xfc, 0xff, 0xff, 0x0f, 0xfc, 0xff, 0xff, 0x0f]);
            key[16..].copy_from_slice(&ff);
            m.extend_from_slice(&[0xff; 160]);
        }
        _ => return None,
    }
    Some((key, m))
}
pub const SPECIAL_COUNT: u8 = 9;

pub fn backend_name() -> &'static str {
    if cfg!(feature = "simd") {
        "simd"
    } else {
        "soft"
    }
}

impl ChunkWorld {
    fn pending(&self) -> usize {
        let b = self.cfg.prim.block();
        let p = self.fed % b;
        if p == 0 && self.fed > 0 && self.cfg.prim.holds_back_full_block() {
            b
        } else {
            p
        }
    }

    fn pending_class(&self) -> &'static str {
        let b = self.cfg.prim.block();
        match self.pending() {
            0 => "0",
            1 => "1",
            x if x == b => "B",
            x if x == b - 1 => "B-1",
            _ => "mid",
        }
    }

    fn chunk_class(&self, n: usize) -> &'static str {
        let b = self.cfg.prim.block();
        let fill = b - self.pending() % b; // bytes to complete the pending block
        if n == 0 {
            "0"
        } else if n == 1 {
            "1"
        } else if n + 1 == fill {
            "fill-1"
        } else if n == fill {
            "=fill"
        } else if n == fill + 1 {
            "fill+1"
        } else if n < fill {
            "<fill"
        } else if n == b {
            "=B"
        } else if n == b + 1 {
            "B+1"
        } else if n % b == 0 {
            "kB"
        } else {
            "kB+r"
        }
    }

    fn init_state(cfg: &Config, key: &[u8]) -> St {
        use dryoc::types::*;
        match &cfg.prim {
            Prim::GhClassic { outlen, keylen } => {
                let k = if *keylen > 0 { Some(&key[..*keylen]) } else { None };
                St::GhC(crypto_generichash_init(k, *outlen).expect("gh init"))
            }
            Prim::GhObj { variant, keyed } => match variant {
                0 => {
                    let k: StackByteArray<32> = StackByteArray::try_from(&key[..32]).unwrap();
                    St::Gh3232(dryoc::generichash::GenericHash::new(if *keyed { Some(&k) } else { None }).expect("gh new"))
                }
                1 => {
                    let k: StackByteArray<64> = StackByteArray::try_from(&key[..64]).unwrap();
                    St::Gh6464(dryoc::generichash::GenericHash::new(if *keyed { Some(&k) } else { None }).expect("gh new"))
                }
                2 => {
                    let k: StackByteArray<16> = StackByteArray::try_from(&key[..16]).unwrap();
                    St::Gh1616(dryoc::generichash::GenericHash::new(if *keyed { Some(&k) } else { None }).expect("gh new"))
                }
                4 => {
                    let k: Vec<u8> = key[..48].to_vec();
                    St::Gh3232Vec(dryoc::generichash::GenericHash::new(if *keyed { Some(&k) } else { None }).expect("gh new"))
                }
                _ => {
                    let k: StackByteArray<32> = StackByteArray::try_from(&key[..32]).unwrap();
                    St::Gh3264(dryoc::generichash::GenericHash::new(if *keyed { Some(&k) } else { None }).expect("gh new"))
                }
            },
            Prim::AuthClassic => St::AuthC(crypto_auth_init(key[..32].try_into().unwrap())),
            Prim::AuthObj => {
                let k: StackByteArray<32> = StackByteArray::try_from(&key[..32]).unwrap();
                St::AuthO(dryoc::auth::Auth::new(k.clone()), dryoc::auth::Auth::new(k.clone()), dryoc::auth::Auth::new(k))
            }
            Prim::OtaClassic => St::OtaC(crypto_onetimeauth_init(key[..32].try_into().unwrap())),
            Prim::OtaObj => {
                let k: StackByteArray<32> = StackByteArray::try_from(&key[..32]).unwrap();
                St::OtaO(dryoc::onetimeauth::OnetimeAuth::new(k.clone()), dryoc::onetimeauth::OnetimeAuth::new(k.clone()), dryoc::onetimeauth::OnetimeAuth::new(k))
            }
            Prim::ShaClassic => St::ShaC(crypto_hash_sha512_init()),
            Prim::ShaObj => St::ShaO(dryoc::sha512::Sha512::new()),
            Prim::SignClassic => St::SignC(crypto_sign_init(), crypto_sign_init()),
            Prim::SignObj => St::SignO(dryoc::sign::IncrementalSigner::new(), dryoc::sign::IncrementalSigner::new(), dryoc::sign::IncrementalSigner::new()),
        }
    }

    fn feed(&mut self, chunk: &[u8]) {
        let v = chunk.to_vec();
        match &mut self.st {
            St::GhC(s) => crypto_generichash_update(s, chunk),
            St::Gh3232(s) => s.update(chunk),
            St::Gh6464(s) => s.update(chunk),
            St::Gh1616(s) => s.update(chunk),
            St::Gh3264(s) => s.update(chunk),
            St::Gh3232Vec(s) => s.update(chunk),
            St::AuthC(s) => crypto_auth_update(s, chunk),
            St::AuthO(s, t, u) => {
                s.update(&v);
                t.update(&v);
                u.update(&v);
            }
            St::OtaC(s) => crypto_onetimeauth_update(s, chunk),
            St::OtaO(s, t, u) => {
                s.update(&v);
                t.update(&v);
                u.update(&v);
            }
            St::ShaC(s) => crypto_hash_sha512_update(s, chunk),
            St::ShaO(s) => s.update(chunk),
            St::SignC(a, b) => {
                crypto_sign_update(a, chunk);
                crypto_sign_update(b, chunk);
            }
            St::SignO(a, b, c) => {
                a.update(&v);
                b.update(&v);
                c.update(&v);
            }
            St::Done => {}
        }
    }

    /// An unrelated computation of the run's primitive family, one-shot and incremental, on this thread.
    fn other(&self, n: usize) {
        let m = pattern(7_777 + n as u64, n);
        let k: [u8; 32] = pattern(9_999, 32).try_into().unwrap();
        let half = n / 2;
        match self.cfg.prim.name().split('.').next().unwrap_or("") {
            "generichash" => {
                let mut o = [0u8; 32];
                let _ = crypto_generichash(&mut o, &m, Some(&k));
                if let Ok(mut s) = crypto_generichash_init(Some(&k), 32) {
                    crypto_generichash_update(&mut s, &m[..half]);
                    crypto_generichash_update(&mut s, &m[half..]);
                    let _ = crypto_generichash_final(s, &mut o);
                }
                std::hint::black_box(o);
            }
            "auth" => {
                let mut o = [0u8; 32];
                crypto_auth(&mut o, &m, &k);
                let mut s = crypto_auth_init(&k);
                crypto_auth_update(&mut s, &m[..half]);
                crypto_auth_update(&mut s, &m[half..]);
                crypto_auth_final(s, &mut o);
                std::hint::black_box(o);
            }
            "onetimeauth" => {
                let mut o = [0u8; 16];
                crypto_onetimeauth(&mut o, &m, &k);
                let mut s = crypto_onetimeauth_init(&k);
                crypto_onetimeauth_update(&mut s, &m[..half]);
                crypto_onetimeauth_update(&mut s, &m[half..]);
                crypto_onetimeauth_final(s, &mut o);
                std::hint::black_box(o);
            }
            _ => {
                // sha512 and the signing flavours (which hash with it)
                let mut o = [0u8; 64];
                crypto_hash_sha512(&mut o, &m);
                let mut s = crypto_hash_sha512_init();
                crypto_hash_sha512_update(&mut s, &m[..half]);
                crypto_hash_sha512_update(&mut s, &m[half..]);
                crypto_hash_sha512_final(s, &mut o);
                std::hint::black_box(o);
            }
        }
    }

    /// (incremental result, one-shot result over the same fed bytes, verify ok)
    fn finalise(&mut self) -> (Vec<u8>, Vec<u8>, Option<bool>) {
        use dryoc::types::*;
        let fed = &self.msg[..self.fed];
        let key = &self.key;
        let st = std::mem::replace(&mut self.st, St::Done);
        match st {
            St::GhC(s) => {
                let (outlen, keylen) = match &self.cfg.prim {
                    Prim::GhClassic { outlen, keylen } => (*outlen, *keylen),
                    _ => unreachable!(),
                };
                let mut a = vec![0xA5u8; outlen]; // dirty output buffers, differently dirty
                crypto_generichash_final(s, &mut a).expect("gh final");
                let mut b = vec![0x3Cu8; outlen];
                crypto_generichash(&mut b, fed, if keylen > 0 { Some(&key[..keylen]) } else { None }).expect("gh oneshot");
                (a, b, None)
            }
            St::Gh3232(s) => {
                let keyed = matches!(self.cfg.prim, Prim::GhObj { keyed: true, .. });
                let k: StackByteArray<32> = StackByteArray::try_from(&key[..32]).unwrap();
                let a = s.finalize_to_vec().expect("finalize");
                let b = dryoc::generichash::GenericHash::<32, 32>::hash_to_vec(&fed.to_vec(), if keyed { Some(&k) } else { None }).expect("hash");
                (a, b, None)
            }
            St::Gh6464(s) => {
                let keyed = matches!(self.cfg.prim, Prim::GhObj { keyed: true, .. });
                let k: StackByteArray<64> = StackByteArray::try_from(&key[..64]).unwrap();
                let a = s.finalize_to_vec().expect("finalize");
                let b = dryoc::generichash::GenericHash::<64, 64>::hash_to_vec(&fed.to_vec(), if keyed { Some(&k) } else { None }).expect("hash");
                (a, b, None)
            }
            St::Gh1616(s) => {
                let keyed = matches!(self.cfg.prim, Prim::GhObj { keyed: true, .. });
                let k: StackByteArray<16> = StackByteArray::try_from(&key[..16]).unwrap();
                let a = s.finalize_to_vec().expect("finalize");
                let b = dryoc::generichash::GenericHash::<16, 16>::hash_to_vec(&fed.to_vec(), if keyed { Some(&k) } else { None }).expect("hash");
                (a, b, None)
            }
            St::Gh3232Vec(s) => {
                let keyed = matches!(self.cfg.prim, Prim::GhObj { keyed: true, .. });
                let k: Vec<u8> = key[..48].to_vec();
                let a = s.finalize_to_vec().expect("finalize");
                let b = dryoc::generichash::GenericHash::<32, 32>::hash_to_vec(&fed.to_vec(), if keyed { Some(&k) } else { None }).expect("hash");
                (a, b, None)
            }
            St::Gh3264(s) => {
                let keyed = matches!(self.cfg.prim, Prim::GhObj { keyed: true, .. });
                let k: StackByteArray<32> = StackByteArray::try_from(&key[..32]).unwrap();
                let a = s.finalize_to_vec().expect("finalize");
                let b = dryoc::generichash::GenericHash::<32, 64>::hash_to_vec(&fed.to_vec(), if keyed { Some(&k) } else { None }).expect("hash");
                (a, b, None)
            }
            St::AuthC(s) => {
                let mut a = [0xA5u8; 32];
                crypto_auth_final(s, &mut a);
                let mut b = [0x3Cu8; 32];
                crypto_auth(&mut b, fed, key[..32].try_into().unwrap());
                let ok = crypto_auth_verify(&a, fed, key[..32].try_into().unwrap()).is_ok();
                (a.to_vec(), b.to_vec(), Some(ok))
            }
            St::AuthO(s, t, u) => {
                let k: StackByteArray<32> = StackByteArray::try_from(&key[..32]).unwrap();
                let a = s.finalize_to_vec();
                let b = dryoc::auth::Auth::compute_to_vec(k.clone(), &fed.to_vec());
                let ok = t.verify(&a).is_ok();
                // a wrong candidate: the incremental verifier and the one-shot verifier must agree
                let (cname, cand) = wrong_candidate(&a, self.fed + key[0] as usize);
                let fedv = fed.to_vec();
                let inc = guarded(|| u.verify(&cand).is_ok());
                let one = guarded(|| dryoc::auth::Auth::compute_and_verify(&cand, k, &fedv).is_ok());
                self.parity = Some((cname, matches!(inc, Ok(true)), matches!(one, Ok(true))));
                (a, b, Some(ok))
            }
            St::OtaC(s) => {
                let mut a = [0xA5u8; 16];
                crypto_onetimeauth_final(s, &mut a);
                let mut b = [0x3Cu8; 16];
                crypto_onetimeauth(&mut b, fed, key[..32].try_into().unwrap());
                let ok = crypto_onetimeauth_verify(&a, fed, key[..32].try_into().unwrap()).is_ok();
                (a.to_vec(), b.to_vec(), Some(ok))
            }
            St::OtaO(s, t, u) => {
                let k: StackByteArray<32> = StackByteArray::try_from(&key[..32]).unwrap();
                let a = s.finalize_to_vec();
                let b = dryoc::onetimeauth::OnetimeAuth::compute_to_vec(k.clone(), &fed.to_vec());
                let ok = t.verify(&a).is_ok();
                let (cname, cand) = wrong_candidate(&a, self.fed + key[0] as usize);
                let fedv = fed.to_vec();
                let inc = guarded(|| u.verify(&cand).is_ok());
                let one = guarded(|| dryoc::onetimeauth::OnetimeAuth::compute_and_verify(&cand, k, &fedv).is_ok());
                self.parity = Some((cname, matches!(inc, Ok(true)), matches!(one, Ok(true))));
                (a, b, Some(ok))
            }
            St::ShaC(s) => {
                let mut a = [0xA5u8; 64];
                crypto_hash_sha512_final(s, &mut a);
                let mut b = [0x3Cu8; 64];
                crypto_hash_sha512(&mut b, fed);
                (a.to_vec(), b.to_vec(), None)
            }
            St::ShaO(s) => {
                let a = s.finalize_to_vec();
                let b = dryoc::sha512::Sha512::compute_to_vec(fed);
                (a, b, None)
            }
            St::SignC(signer, verifier) => {
                let seed: [u8; 32] = key[..32].try_into().unwrap();
                let (pk, sk) = crypto_sign_seed_keypair(&seed);
                let mut a = [0xA5u8; 64];
                crypto_sign_final_create(signer, &mut a, &sk).expect("final_create");
                // reference: the single-update run over the same bytes
                let mut r = crypto_sign_init();
                crypto_sign_update(&mut r, fed);
                let mut b = [0x3Cu8; 64];
                crypto_sign_final_create(r, &mut b, &sk).expect("final_create ref");
                let ok = crypto_sign_final_verify(verifier, &a, &pk).is_ok();
                (a.to_vec(), b.to_vec(), Some(ok))
            }
            St::SignO(signer, verifier, signer_vec) => {
                let seed: StackByteArray<32> = StackByteArray::try_from(&key[..32]).unwrap();
                let kp: dryoc::sign::SigningKeyPair<dryoc::sign::PublicKey, dryoc::sign::SecretKey> = dryoc::sign::SigningKeyPair::from_seed(&seed);
                let a: dryoc::sign::Signature = signer.finalize(&kp.secret_key).expect("finalize");
                let mut r = dryoc::sign::IncrementalSigner::new();
                r.update(&fed.to_vec());
                let b: dryoc::sign::Signature = r.finalize(&kp.secret_key).expect("finalize ref");
                let ok = verifier.verify(&a, &kp.public_key).is_ok();
                // the same incremental signature into a resizable container
                match guarded(|| signer_vec.finalize::<Vec<u8>, _>(&kp.secret_key)) {
                    Ok(Ok(v)) if v.as_slice() == b.as_slice() => {}
                    Ok(Ok(v)) => self.extra.push(("sign.object(Vec)", format!("the incremental signature finalised into a Vec<u8> ({}) differs from the single-update signature ({})", hex(&v), hex(b.as_slice())))),
                    Ok(Err(e)) => self.extra.push(("sign.object(Vec)", format!("finalising the incremental signature into a Vec<u8> returned Err({:?}) where the fixed-size container succeeded", e))),
                    Err((l, m)) => self.extra.push(("sign.object(Vec)", format!("finalising the incremental signature into a Vec<u8> unwound: {} at {}", m, l))),
                }
                (a.to_vec(), b.to_vec(), Some(ok))
            }
            St::Done => (Vec::new(), Vec::new(), None),
        }
    }
}

impl World for ChunkWorld {
    const NAME: &'static str = "chunk";
    type Config = Config;
    type Event = Event;

    fn gen_config(rng: &mut Rng, prop: &str, _tier: Tier, _run: u64) -> Config {
        // the SIMD build differs from the software build only in BLAKE2b
        let prim = match if cfg!(feature = "simd") { rng.below(5) } else { rng.below(14) } {
            0..=2 => Prim::GhClassic { outlen: rng.range(16, 64) as usize, keylen: if rng.chance(1, 2) { rng.range(16, 64) as usize } else { 0 } },
            3..=4 => Prim::GhObj { variant: rng.below(5) as u8, keyed: rng.chance(1, 2) },
            5 => Prim::AuthClassic,
            6 => Prim::AuthObj,
            7..=8 => Prim::OtaClassic,
            9 => Prim::OtaObj,
            10 => Prim::ShaClassic,
            11 => Prim::ShaObj,
            12 => Prim::SignClassic,
            _ => Prim::SignObj,
        };
        let msg_len = match rng.below(100) {
            0..=3 => 0,
            4..=59 => rng.usize_below(400),
            60..=93 => rng.usize_below(1101),
            94..=96 => 5 * 1024 + rng.usize_below(15 * 1024),
            // beyond 64 KiB (and 128 KiB): every 16-bit length or offset has wrapped
            _ => *rng.pick(&[65_535usize, 65_536, 65_537, 65_600, 70_000, 131_072, 131_074, 140_000]) + rng.usize_below(24),
        };
        let big = msg_len >= 65_535;
        let policy = match if big { 20 + rng.below(4) } else { rng.below(10) } {
            // big messages: a few very large pieces around small ones, never thousands of events
            20 => Policy::Huge,
            21..=23 => Policy::BigPieces,
            0 => Policy::UniformSmall,
            1 => Policy::Dribble,
            2 => Policy::BlockAligned,
            3 => Policy::OffByOne,
            4..=5 => Policy::TopUp,
            6 => Policy::Huge,
            _ => Policy::Mixed,
        };
        let special = if matches!(prim, Prim::OtaClassic | Prim::OtaObj) && rng.chance(1, 6) { 1 + rng.below(SPECIAL_COUNT as u64) as u8 } else { 0 };
        let msg_len = match special_operands(special) {
            Some((_, m)) => m.len(),
            None => msg_len,
        };
        // the corpus messages are short: cut them everywhere, not by one fixed policy
        let policy = if special > 0 { *rng.pick(&[Policy::UniformSmall, Policy::Mixed, Policy::BlockAligned, Policy::OffByOne, Policy::TopUp]) } else { policy };
        Config { prop: prop.to_string(), prim, msg_len, fill: rng.next_u64() % 1000, key_fill: rng.next_u64() % 1000, policy, backend: backend_name().to_string(), special }
    }

    fn new(cfg: &Config) -> Self {
        let (msg, key) = match special_operands(cfg.special) {
            Some((k, m)) => {
                let mut key = k.to_vec();
                key.extend_from_slice(&pattern(cfg.key_fill * 4 + 1, 32));
                (m, key)
            }
            None => (pattern(cfg.fill, cfg.msg_len), pattern(cfg.key_fill * 4 + 1, 64)),
        };
        let st = Self::init_state(cfg, &key);
        ChunkWorld { cfg: cfg.clone(), msg, key, fed: 0, st, finalised: false, n_events: 0, parity: None, extra: Vec::new() }
    }

    fn next_event(&mut self, rng: &mut Rng) -> Option<Event> {
        if self.finalised {
            return None;
        }
        let remaining = self.msg.len() - self.fed;
        if remaining == 0 {
            // a trailing zero-length read now and then, then Final
            if rng.chance(1, 8) {
                return Some(Event::Feed { n: 0 });
            }
            return Some(Event::Final);
        }
        self.n_events += 1;
        if self.n_events > 300 {
            return Some(Event::Feed { n: remaining });
        }
        if rng.chance(1, 10) {
            return Some(Event::Other { n: *rng.pick(&[0usize, 1, 15, 16, 17, 33, 63, 64, 65, 100, 127, 128, 129, 200]) });
        }
        let elsewhere = rng.chance(1, 64);
        let b = self.cfg.prim.block();
        let fill = b - self.pending() % b;
        let pol = if self.cfg.policy == Policy::Mixed {
            match rng.below(6) {
                0 => Policy::UniformSmall,
                1 => Policy::Dribble,
                2 => Policy::BlockAligned,
                3 => Policy::OffByOne,
                4 => Policy::TopUp,
                _ => Policy::Huge,
            }
        } else {
            self.cfg.policy.clone()
        };
        let n = if rng.chance(1, 12) {
            0
        } else {
            match pol {
                Policy::UniformSmall => rng.range(1, 40) as usize,
                Policy::Dribble => 1,
                Policy::BlockAligned => b * rng.range(1, 3) as usize,
                Policy::OffByOne => (b as i64 + rng.range(0, 2) as i64 - 1) as usize * rng.range(1, 2) as usize,
                Policy::TopUp => match rng.below(5) {
                    0 => fill,
                    1 => fill.saturating_sub(1).max(1),
                    2 => fill + 1,
                    3 => fill + b,
                    _ => fill + b * rng.range(1, 2) as usize + rng.usize_below(3),
                },
                Policy::Huge => remaining,
                Policy::BigPieces => match rng.below(6) {
                    0 => rng.range(1, 15) as usize,
                    1 => 65_536,
                    2 => 65_536 + rng.usize_below(16),
                    3 => 131_072 + rng.usize_below(4),
                    4 => fill + 65_536,
                    _ => remaining,
                },
                Policy::Mixed => unreachable!(),
            }
        };
        // long messages under byte-sized policies would need thousands of
        // events; after 300 events the rest goes in one piece
        if elsewhere {
            return Some(Event::FeedElsewhere { n: n.min(remaining) });
        }
        Some(Event::Feed { n: n.min(remaining) })
    }

    fn step(&mut self, ev: &Event, out: &mut Out) {
        match ev {
            Event::Feed { n } => {
                if self.finalised {
                    return;
                }
                let n = (*n).min(self.msg.len() - self.fed);
                let pc = self.pending_class();
                let cc = self.chunk_class(n);
                out.cell(&format!("{}|{}|{}|{}", self.cfg.prim.name(), pc, cc, backend_name()));
                out.probe(&format!("chunk.{}", cc));
                out.probe(&format!("pending.{}", pc));
                if n == 0 {
                    out.fault("zero_length_read");
                } else if n < self.msg.len() - self.fed || self.fed > 0 {
                    out.fault("short_read");
                }
                out.shape(&format!("F{}{}", pc, cc));
                let chunk = self.msg[self.fed..self.fed + n].to_vec();
                self.feed(&chunk);
                self.fed += n;
                out.op();
                out.note(&format!("feed {} -> fed {}", n, self.fed));
            }
            Event::FeedElsewhere { n } => {
                if self.finalised {
                    return;
                }
                let n = (*n).min(self.msg.len() - self.fed);
                out.fault("continued_on_another_thread");
                out.shape("E");
                let chunk = self.msg[self.fed..self.fed + n].to_vec();
                let this: &mut ChunkWorld = self;
                std::thread::scope(|s| {
                    let _ = s
                        .spawn(|| {
                            this.other(17);
                            this.feed(&chunk);
                        })
                        .join();
                });
                self.fed += n;
                out.op();
                out.note(&format!("feed {} on another thread -> fed {}", n, self.fed));
            }
            Event::Other { n } => {
                if self.finalised {
                    return;
                }
                out.fault("other_computation_interleaved");
                out.shape("O");
                self.other(*n);
                out.op();
                out.note(&format!("other computation over {} bytes", n));
            }
            Event::Final => {
                if self.finalised {
                    return;
                }
                self.finalised = true;
                out.shape(&format!("Final{}", self.cfg.prim.name()));
                let (a, b, verify) = self.finalise();
                out.op();
                out.probe("final");
                out.note(&format!("final fed={} inc={} one={} verify={:?}", self.fed, hex(&a), hex(&b), verify));
                let flavour = self.cfg.prim.name();
                if a != b {
                    out.violate(
                        "C08",
                        "c08.result_equal",
                        site(&[("primitive", flavour.split('.').next().unwrap()), ("flavour", flavour), ("backend", backend_name())]),
                        format!("after feeding {} bytes in pieces the incremental result {} differs from the one-shot result {}", self.fed, hex(&a), hex(&b)),
                    );
                }
                for (fl, detail) in std::mem::take(&mut self.extra) {
                    out.violate("C08", "c08.result_equal", site(&[("primitive", fl.split('.').next().unwrap()), ("flavour", fl), ("backend", backend_name())]), detail);
                }
                if let Some((cname, inc, one)) = self.parity.take() {
                    out.probe("verify.parity_compared");
                    if inc != one {
                        out.violate(
                            "C08",
                            "c08.verify_parity",
                            site(&[("flavour", flavour), ("candidate", cname), ("backend", backend_name())]),
                            format!("a wrong authenticator ({}) after feeding {} bytes in pieces: the incremental verifier {} it, the one-shot verifier over the same bytes {} it", cname, self.fed, if inc { "accepts" } else { "does not accept" }, if one { "accepts" } else { "does not accept" }),
                        );
                    }
                }
                if verify == Some(false) {
                    out.violate(
                        "C08",
                        "c08.verify_accepts",
                        site(&[("flavour", flavour), ("backend", backend_name())]),
                        format!("the verifier fed the same {} bytes in the same pieces rejects the incremental authenticator/signature", self.fed),
                    );
                }
            }
        }
    }

    fn shrink(ev: &Event) -> Vec<Event> {
        match ev {
            Event::FeedElsewhere { n } => vec![Event::Feed { n: *n }],
            Event::Feed { n } if *n > 0 => {
                let mut v = vec![Event::Feed { n: n / 2 }, Event::Feed { n: n - 1 }];
                v.dedup_by(|a, b| matches!((a, b), (Event::Feed { n: x }, Event::Feed { n: y }) if x == y));
                v
            }
            _ => Vec::new(),
        }
    }

    fn prop_of(cfg: &Config) -> String {
        cfg.prop.clone()
    }
}
