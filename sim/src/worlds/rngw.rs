//! RNG world (C11): the OS random generator lives behind seam H1. The
//! simulated generator serves every draw from a seeded stream and keeps a
//! ledger, so each randomised entry point can be judged per call: did it
//! draw, and is its random output (the documented image of) exactly what it
//! drew in *this* call. A second configuration ("real") runs the unhooked
//! OsRng path with the history oracle only.

use crate::kit::prng::{pattern, Rng};
use crate::kit::*;
use dryoc::types::*;
use serde::{Deserialize, Serialize};
use std::cell::RefCell;
use std::collections::BTreeMap;
use std::rc::Rc;

#[derive(Default)]
struct Ledger {
    draws: Vec<Vec<u8>>,
}

#[derive(Clone, Debug, Serialize, Deserialize)]
pub struct Config {
    pub prop: String,
    pub rseed: u64,
    /// no source installed: the shipped OsRng path (statistical oracle only)
    pub real: bool,
    /// fault: the OS generator refuses (getrandom fails with EINVAL, injected with a
    /// seccomp filter in a forked child per call); implies `real`
    #[serde(default)]
    pub os_fail: bool,
    /// the process forks (as servers do) and both sides generate: implies `real`
    #[serde(default)]
    pub forked: bool,
    /// other threads generate too (each a fresh thread doing its first calls): implies `real`
    #[serde(default)]
    pub threaded: bool,
    pub eps: Vec<u16>,
    pub calls_per_ep: usize,
}

#[derive(Clone, Debug, Serialize, Deserialize)]
pub enum Event {
    Call { ep: u16, arg: u64 },
}

/// How the random component of a result relates to the bytes drawn.
#[derive(Clone, Copy, PartialEq, Eq)]
enum Image {
    /// component == first n drawn bytes
    Identity,
    /// component = sk || pk with sk == drawn[..32], pk == scalarmult_base(sk)
    BoxKeypair,
    /// component = pk || sk == crypto_sign_seed_keypair(drawn[..32])
    SignKeypair,
    /// component = ephemeral pk == scalarmult_base(drawn[..32])
    SealedEpk,
}

struct CallOut {
    component: Vec<u8>,
    image: Image,
    min_draw: usize,
}

pub struct EpInfo {
    pub name: &'static str,
    pub nightly: bool,
    /// participates in the per-byte / distinctness history oracle (fixed width)
    pub history: bool,
}

macro_rules! eps {
    ($( $idx:expr, $name:expr, $nightly:expr, $hist:expr ;)*) => {
        pub const EPS: &[EpInfo] = &[ $( EpInfo { name: $name, nightly: $nightly, history: $hist } ),* ];
    };
}

eps! {
    0, "rng::randombytes_buf(32)", false, true;
    1, "rng::randombytes_buf(n)", false, false;
    2, "rng::copy_randombytes", false, true;
    3, "crypto_secretbox_keygen", false, true;
    4, "crypto_secretbox_keygen_inplace", false, true;
    5, "crypto_kdf_keygen", false, true;
    6, "crypto_auth_keygen", false, true;
    7, "crypto_onetimeauth_keygen", false, true;
    8, "crypto_generichash_keygen", false, true;
    9, "crypto_secretstream_xchacha20poly1305_keygen", false, true;
    10, "crypto_shorthash_keygen", false, true;
    11, "crypto_box_keypair", false, true;
    12, "crypto_box_keypair_inplace", false, true;
    13, "crypto_kx_keypair", false, true;
    14, "crypto_sign_keypair", false, true;
    15, "crypto_sign_keypair_inplace", false, true;
    16, "crypto_box_seal", false, true;
    17, "DryocBox::seal", false, true;
    18, "DryocBox::seal_to_vecbox", false, true;
    19, "crypto_secretstream_xchacha20poly1305_init_push", false, true;
    20, "DryocStream::init_push", false, true;
    21, "crypto_pwhash_str", false, true;
    22, "PwHash::hash(salt 16)", false, true;
    23, "PwHash::hash(salt 8..64)", false, false;
    24, "StackByteArray<32>::gen", false, true;
    25, "[u8; 32]::gen", false, true;
    26, "Vec<u8> as NewByteArray<32>::gen", false, true;
    27, "dryocbox::Nonce::gen", false, true;
    28, "dryocsecretbox::Key::gen", false, true;
    29, "dryocsecretbox::Nonce::gen", false, true;
    30, "dryocstream::Key::gen", false, true;
    31, "auth::Key::gen", false, true;
    32, "onetimeauth::Key::gen", false, true;
    33, "generichash::Key::gen", false, true;
    34, "kdf::Key::gen", false, true;
    35, "kdf::Context::gen", false, true;
    36, "dryocbox::KeyPair::gen", false, true;
    37, "dryocbox::KeyPair::gen_with_defaults", false, true;
    38, "kx::KeyPair::gen", false, true;
    39, "SigningKeyPair::gen", false, true;
    40, "SigningKeyPair::gen_with_defaults", false, true;
    41, "Kdf::gen", false, true;
    42, "Kdf::gen_with_defaults", false, true;
    43, "dryocstream::Header::gen", false, true;
    44, "HeapByteArray<32>::gen", true, true;
    45, "HeapByteArray<32>::gen_locked", true, true;
    46, "HeapByteArray<32>::gen_readonly_locked", true, true;
    47, "Locked<HeapByteArray<32>>::gen", true, true;
    48, "KeyPair::gen_locked_keypair", true, true;
    49, "KeyPair::gen_readonly_locked_keypair", true, true;
    50, "SigningKeyPair::gen_locked_keypair", true, true;
    51, "SigningKeyPair::gen_readonly_locked_keypair", true, true;
    52, "Locked<HeapByteArray<24>>::gen (protected Nonce)", true, true;
    53, "rng::randombytes_buf(257)", false, true;
    54, "rng::randombytes_buf(1000)", false, true;
    55, "rng::copy_randombytes(513)", false, true;
    56, "rng::copy_randombytes(4097)", false, true;
    57, "rng::randombytes_buf(64..5000)", false, false;
    58, "crypto_secretstream_xchacha20poly1305_init_push (reused State object)", false, true;
    59, "crypto_box_keypair_inplace (reused buffers)", false, true;
    60, "crypto_secretbox_keygen_inplace (reused buffer)", false, true;
    61, "PwHash::hash(salt 32)", false, true;
    62, "PwHash::hash(salt 64)", false, true;
    63, "rng::randombytes_buf(1 MiB)", false, true;
    64, "rng::copy_randombytes(1 MiB + 1)", false, true;
}

pub fn available_eps() -> Vec<u16> {
    let n = cfg!(feature = "nightly");
    EPS.iter().enumerate().filter(|(_, e)| e.nightly == n).map(|(i, _)| i as u16).collect()
}

pub struct RngWorld {
    /// objects deliberately reused across calls (entry points 58-60)
    reused_state: RefCell<dryoc::classic::crypto_secretstream_xchacha20poly1305::State>,
    reused_bufs: RefCell<([u8; 32], [u8; 32], [u8; 24])>,
    /// os_fail: last value returned per entry point
    last_returned: BTreeMap<u16, Vec<u8>>,
    cfg: Config,
    ledger: Rc<RefCell<Ledger>>,
    /// per entry point: the random components seen in this run
    history: BTreeMap<u16, Vec<Vec<u8>>>,
    plan: Vec<Event>,
    planned: bool,
}

fn box_pk_of(sk: &[u8]) -> [u8; 32] {
    let mut pk = [0u8; 32];
    let sk: [u8; 32] = sk.try_into().unwrap();
    dryoc::classic::crypto_core::crypto_scalarmult_base(&mut pk, &sk);
    pk
}

fn decode_salt_field(s: &str) -> Option<Vec<u8>> {
    use base64::Engine as _;
    let segs: Vec<&str> = s.split('$').collect();
    // $argon2id$v=19$m=..,t=..,p=1$<salt>$<hash>
    if segs.len() != 6 {
        return None;
    }
    base64::engine::general_purpose::STANDARD_NO_PAD.decode(segs[4]).ok()
}

impl RngWorld {
    fn call(&self, ep: u16, arg: u64) -> Result<CallOut, String> {
        use dryoc::classic::*;
        let id = |v: Vec<u8>| -> Result<CallOut, String> {
            let n = v.len();
            Ok(CallOut { component: v, image: Image::Identity, min_draw: n })
        };
        let kp = |pk: &[u8], sk: &[u8]| -> Result<CallOut, String> {
            let mut c = sk.to_vec();
            c.extend_from_slice(pk);
            Ok(CallOut { component: c, image: Image::BoxKeypair, min_draw: 32 })
        };
        let skp = |pk: &[u8], sk: &[u8]| -> Result<CallOut, String> {
            let mut c = pk.to_vec();
            c.extend_from_slice(sk);
            Ok(CallOut { component: c, image: Image::SignKeypair, min_draw: 32 })
        };
        let msg = pattern(arg, (arg % 40) as usize);
        match ep {
            0 => id(dryoc::rng::randombytes_buf(32)),
            1 => id(dryoc::rng::randombytes_buf(1 + (arg % 96) as usize)),
            2 => {
                let mut b = [0u8; 32];
                dryoc::rng::copy_randombytes(&mut b);
                id(b.to_vec())
            }
            3 => id(crypto_secretbox::crypto_secretbox_keygen().to_vec()),
            4 => {
                let mut k = [0u8; 32];
                crypto_secretbox::crypto_secretbox_keygen_inplace(&mut k);
                id(k.to_vec())
            }
            5 => id(crypto_kdf::crypto_kdf_keygen().to_vec()),
            6 => id(crypto_auth::crypto_auth_keygen().to_vec()),
            7 => id(crypto_onetimeauth::crypto_onetimeauth_keygen().to_vec()),
            8 => id(crypto_generichash::crypto_generichash_keygen().to_vec()),
            9 => {
                let mut k = [0u8; 32];
                crypto_secretstream_xchacha20poly1305::crypto_secretstream_xchacha20poly1305_keygen(&mut k);
                id(k.to_vec())
            }
            10 => id(crypto_shorthash::crypto_shorthash_keygen().to_vec()),
            11 => {
                let (pk, sk) = crypto_box::crypto_box_keypair();
                kp(&pk, &sk)
            }
            12 => {
                let mut pk = [0u8; 32];
                let mut sk = [0u8; 32];
                crypto_box::crypto_box_keypair_inplace(&mut pk, &mut sk);
                kp(&pk, &sk)
            }
            13 => {
                let (pk, sk) = crypto_kx::crypto_kx_keypair();
                kp(&pk, &sk)
            }
            14 => {
                let (pk, sk) = crypto_sign::crypto_sign_keypair();
                skp(&pk, &sk)
            }
            15 => {
                let mut pk = [0u8; 32];
                let mut sk = [0u8; 64];
                crypto_sign::crypto_sign_keypair_inplace(&mut pk, &mut sk);
                skp(&pk, &sk)
            }
            16 => {
                let rpk = box_pk_of(&pattern(7, 32));
                let mut ct = vec![0u8; msg.len() + 48];
                crypto_box::crypto_box_seal(&mut ct, &msg, &rpk).map_err(|e| format!("{:?}", e))?;
                Ok(CallOut { component: ct[..32].to_vec(), image: Image::SealedEpk, min_draw: 32 })
            }
            17 => {
                let rpk = box_pk_of(&pattern(7, 32));
                let b: dryoc::dryocbox::DryocBox<dryoc::dryocbox::PublicKey, dryoc::dryocbox::Mac, Vec<u8>> = dryoc::dryocbox::DryocBox::seal(&msg, &rpk).map_err(|e| format!("{:?}", e))?;
                let (_, _, e) = b.into_parts();
                Ok(CallOut { component: e.ok_or("no epk")?.to_vec(), image: Image::SealedEpk, min_draw: 32 })
            }
            18 => {
                let rpk: dryoc::dryocbox::PublicKey = box_pk_of(&pattern(7, 32)).into();
                let b = dryoc::dryocbox::VecBox::seal_to_vecbox(&msg, &rpk).map_err(|e| format!("{:?}", e))?;
                let v = b.to_vec();
                Ok(CallOut { component: v[..32].to_vec(), image: Image::SealedEpk, min_draw: 32 })
            }
            19 => {
                let key: [u8; 32] = pattern(9, 32).try_into().unwrap();
                let mut st = crypto_secretstream_xchacha20poly1305::State::new();
                let mut h = [0u8; 24];
                crypto_secretstream_xchacha20poly1305::crypto_secretstream_xchacha20poly1305_init_push(&mut st, &mut h, &key);
                id(h.to_vec())
            }
            20 => {
                let key: [u8; 32] = pattern(9, 32).try_into().unwrap();
                let (_s, h): (dryoc::dryocstream::DryocStream<dryoc::dryocstream::Push>, dryoc::dryocstream::Header) = dryoc::dryocstream::DryocStream::init_push(&key);
                id(h.to_vec())
            }
            21 => {
                let s = crypto_pwhash::crypto_pwhash_str(&msg, 1, 8192).map_err(|e| format!("{:?}", e))?;
                let salt = decode_salt_field(&s).ok_or_else(|| format!("cannot find the salt field in {:?}", s))?;
                id(salt)
            }
            22 | 23 | 61 | 62 => {
                let sl = match ep {
                    22 => 16,
                    61 => 32,
                    62 => 64,
                    _ => 8 + (arg % 57) as usize,
                };
                let cfg = dryoc::pwhash::Config::interactive().with_opslimit(1).with_memlimit(8192).with_salt_length(sl);
                let h: dryoc::pwhash::VecPwHash = dryoc::pwhash::PwHash::hash(&msg, cfg).map_err(|e| format!("{:?}", e))?;
                let (_, salt, _) = h.into_parts();
                id(salt)
            }
            24 => id(StackByteArray::<32>::gen().to_vec()),
            25 => id(<[u8; 32] as NewByteArray<32>>::gen().to_vec()),
            26 => id(<Vec<u8> as NewByteArray<32>>::gen()),
            27 => id(dryoc::dryocbox::Nonce::gen().to_vec()),
            28 => id(dryoc::dryocsecretbox::Key::gen().to_vec()),
            29 => id(dryoc::dryocsecretbox::Nonce::gen().to_vec()),
            30 => id(dryoc::dryocstream::Key::gen().to_vec()),
            31 => id(dryoc::auth::Key::gen().to_vec()),
            32 => id(dryoc::onetimeauth::Key::gen().to_vec()),
            33 => id(dryoc::generichash::Key::gen().to_vec()),
            34 => id(dryoc::kdf::Key::gen().to_vec()),
            35 => id(dryoc::kdf::Context::gen().to_vec()),
            36 => {
                let k = dryoc::dryocbox::KeyPair::gen();
                kp(k.public_key.as_slice(), k.secret_key.as_slice())
            }
            37 => {
                let k = dryoc::dryocbox::KeyPair::gen_with_defaults();
                kp(k.public_key.as_slice(), k.secret_key.as_slice())
            }
            38 => {
                let k = dryoc::kx::KeyPair::gen();
                kp(k.public_key.as_slice(), k.secret_key.as_slice())
            }
            39 => {
                let k: dryoc::sign::SigningKeyPair<dryoc::sign::PublicKey, dryoc::sign::SecretKey> = dryoc::sign::SigningKeyPair::gen();
                skp(k.public_key.as_slice(), k.secret_key.as_slice())
            }
            40 => {
                let k = dryoc::sign::SigningKeyPair::gen_with_defaults();
                skp(k.public_key.as_slice(), k.secret_key.as_slice())
            }
            41 => {
                let k: dryoc::kdf::StackKdf = dryoc::kdf::Kdf::gen();
                let (mk, ctx) = k.into_parts();
                let mut c = mk.to_vec();
                c.extend_from_slice(ctx.as_slice());
                id(c)
            }
            42 => {
                let k = dryoc::kdf::StackKdf::gen_with_defaults();
                let (mk, ctx) = k.into_parts();
                let mut c = mk.to_vec();
                c.extend_from_slice(ctx.as_slice());
                id(c)
            }
            43 => id(dryoc::dryocstream::Header::gen().to_vec()),
            53 => id(dryoc::rng::randombytes_buf(257)),
            54 => id(dryoc::rng::randombytes_buf(1000)),
            55 => {
                let mut b = vec![0u8; 513];
                dryoc::rng::copy_randombytes(&mut b);
                id(b)
            }
            56 => {
                let mut b = vec![0u8; 4097];
                dryoc::rng::copy_randombytes(&mut b);
                id(b)
            }
            57 => id(dryoc::rng::randombytes_buf(64 + (arg % 4937) as usize)),
            63 => id(dryoc::rng::randombytes_buf(1 << 20)),
            64 => {
                let mut b = vec![0u8; (1 << 20) + 1];
                dryoc::rng::copy_randombytes(&mut b);
                id(b)
            }
            58 => {
                // the same State object and the same header buffer every time
                let key: [u8; 32] = pattern(9, 32).try_into().unwrap();
                let mut st = self.reused_state.borrow_mut();
                let mut bufs = self.reused_bufs.borrow_mut();
                crypto_secretstream_xchacha20poly1305::crypto_secretstream_xchacha20poly1305_init_push(&mut st, &mut bufs.2, &key);
                id(bufs.2.to_vec())
            }
            59 => {
                let mut bufs = self.reused_bufs.borrow_mut();
                let (pk, sk, _) = &mut *bufs;
                crypto_box::crypto_box_keypair_inplace(pk, sk);
                kp(&pk[..], &sk[..])
            }
            60 => {
                let mut bufs = self.reused_bufs.borrow_mut();
                crypto_secretbox::crypto_secretbox_keygen_inplace(&mut bufs.0);
                id(bufs.0.to_vec())
            }
            #[cfg(feature = "nightly")]
            44..=52 => {
                use dryoc::protected::*;
                let io = |e: std::io::Error| format!("io error: {}", e);
                match ep {
                    44 => id(HeapByteArray::<32>::gen().as_slice().to_vec()),
                    45 => id(HeapByteArray::<32>::gen_locked().map_err(io)?.as_slice().to_vec()),
                    46 => id(HeapByteArray::<32>::gen_readonly_locked().map_err(io)?.as_slice().to_vec()),
                    47 => id(<Locked<HeapByteArray<32>> as NewByteArray<32>>::gen().as_slice().to_vec()),
                    48 => {
                        let k = dryoc::dryocbox::protected::LockedKeyPair::gen_locked_keypair().map_err(io)?;
                        kp(k.public_key.as_slice(), k.secret_key.as_slice())
                    }
                    49 => {
                        let k = dryoc::dryocbox::protected::LockedROKeyPair::gen_readonly_locked_keypair().map_err(io)?;
                        kp(k.public_key.as_slice(), k.secret_key.as_slice())
                    }
                    50 => {
                        let k = dryoc::sign::protected::LockedSigningKeyPair::gen_locked_keypair().map_err(io)?;
                        skp(k.public_key.as_slice(), k.secret_key.as_slice())
                    }
                    51 => {
                        let k = dryoc::sign::SigningKeyPair::<LockedRO<HeapByteArray<32>>, LockedRO<HeapByteArray<64>>>::gen_readonly_locked_keypair().map_err(io)?;
                        skp(k.public_key.as_slice(), k.secret_key.as_slice())
                    }
                    _ => id(<Locked<HeapByteArray<24>> as NewByteArray<24>>::gen().as_slice().to_vec()),
                }
            }
            other => Err(format!("entry point {} not available in this build", other)),
        }
    }
}

/// Install a seccomp filter that makes getrandom(2) fail with EINVAL for the
/// calling process (used only inside a forked child).
#[cfg(all(target_os = "linux", target_arch = "x86_64"))]
unsafe fn deny_getrandom() -> bool {
    const AUDIT_ARCH_X86_64: u32 = 0xC000_003E;
    let filt = [
        libc::sock_filter { code: 0x20, jt: 0, jf: 0, k: 4 },                          // ld arch
        libc::sock_filter { code: 0x15, jt: 0, jf: 3, k: AUDIT_ARCH_X86_64 },          // jeq x86_64 else allow
        libc::sock_filter { code: 0x20, jt: 0, jf: 0, k: 0 },                          // ld nr
        libc::sock_filter { code: 0x15, jt: 0, jf: 1, k: libc::SYS_getrandom as u32 }, // jeq getrandom
        libc::sock_filter { code: 0x06, jt: 0, jf: 0, k: 0x0005_0000 | libc::EINVAL as u32 }, // ret ERRNO(EINVAL)
        libc::sock_filter { code: 0x06, jt: 0, jf: 0, k: 0x7fff_0000 },                // ret ALLOW
    ];
    let prog = libc::sock_fprog { len: filt.len() as u16, filter: filt.as_ptr() as *mut libc::sock_filter };
    if libc::prctl(libc::PR_SET_NO_NEW_PRIVS, 1, 0, 0, 0) != 0 {
        return false;
    }
    libc::prctl(libc::PR_SET_SECCOMP, 2 /* SECCOMP_MODE_FILTER */, &prog as *const libc::sock_fprog) == 0
}

#[cfg(not(all(target_os = "linux", target_arch = "x86_64")))]
unsafe fn deny_getrandom() -> bool {
    false
}

enum ChildOutcome {
    Returned(Vec<u8>),
    #[allow(dead_code)]
    Refused(String),
    Panicked,
    Harness(String),
}

impl RngWorld {
    /// Execute one entry point in a forked child in which the OS generator refuses.
    fn call_in_failing_child(&self, ep: u16, arg: u64) -> ChildOutcome {
        self.call_in_child(ep, arg, true)
    }

    fn call_in_child(&self, ep: u16, arg: u64, deny: bool) -> ChildOutcome {
        unsafe {
            let mut fds = [0 as libc::c_int; 2];
            if libc::pipe(fds.as_mut_ptr()) != 0 {
                return ChildOutcome::Harness("pipe failed".into());
            }
            let pid = libc::fork();
            if pid < 0 {
                return ChildOutcome::Harness("fork failed".into());
            }
            if pid == 0 {
                libc::close(fds[0]);
                let mut msg: Vec<u8> = Vec::new();
                if deny && !deny_getrandom() {
                    msg.push(b'H');
                } else {
                    // make sure the fault really is in place before judging anything
                    let mut probe = [0u8; 8];
                    let r = if deny { libc::syscall(libc::SYS_getrandom, probe.as_mut_ptr(), 8usize, 0u32) } else { -1 };
                    if r >= 0 {
                        msg.push(b'H');
                    } else {
                        match guarded(|| self.call(ep, arg)) {
                            Ok(Ok(co)) => {
                                msg.push(b'R');
                                msg.extend_from_slice(&co.component);
                            }
                            Ok(Err(e)) => {
                                msg.push(b'E');
                                msg.extend_from_slice(e.as_bytes());
                            }
                            Err(_) => msg.push(b'P'),
                        }
                    }
                }
                let mut off = 0;
                while off < msg.len() {
                    let w = libc::write(fds[1], msg[off..].as_ptr() as *const libc::c_void, msg.len() - off);
                    if w <= 0 {
                        break;
                    }
                    off += w as usize;
                }
                libc::_exit(0);
            }
            libc::close(fds[1]);
            let mut buf = Vec::new();
            let mut chunk = [0u8; 4096];
            loop {
                let r = libc::read(fds[0], chunk.as_mut_ptr() as *mut libc::c_void, chunk.len());
                if r <= 0 {
                    break;
                }
                buf.extend_from_slice(&chunk[..r as usize]);
            }
            libc::close(fds[0]);
            let mut status = 0;
            libc::waitpid(pid, &mut status, 0);
            match buf.first() {
                Some(b'R') => ChildOutcome::Returned(buf[1..].to_vec()),
                Some(b'E') => ChildOutcome::Refused(String::from_utf8_lossy(&buf[1..]).to_string()),
                Some(b'P') => ChildOutcome::Panicked,
                Some(b'H') => ChildOutcome::Harness("could not make getrandom fail in the child (seccomp unavailable?)".into()),
                _ => {
                    if libc::WIFSIGNALED(status) {
                        // the call took the process down: nothing was returned
                        ChildOutcome::Panicked
                    } else {
                        ChildOutcome::Harness("child wrote nothing".into())
                    }
                }
            }
        }
    }

    /// The process forks after having used the generator; the two children (and the
    /// parent afterwards) must not hand out the same values.
    fn step_forked(&mut self, ep: u16, arg: u64, info: &EpInfo, out: &mut Out) {
        // warm-up in the parent: whatever per-process / per-thread state the generator keeps exists now
        let warm = guarded(|| self.call(ep, arg));
        let a = self.call_in_child(ep, arg, false);
        let b = self.call_in_child(ep, arg, false);
        let after = guarded(|| self.call(ep, arg));
        out.op();
        out.shape(&format!("K{}", ep));
        out.cell(&format!("{}|forked", info.name));
        out.fault("process_fork");
        let val = |c: &ChildOutcome| -> Option<Vec<u8>> {
            match c {
                ChildOutcome::Returned(v) if v.len() >= 16 => Some(v.clone()),
                _ => None,
            }
        };
        let pv = |r: &Result<Result<CallOut, String>, (String, String)>| -> Option<Vec<u8>> {
            match r {
                Ok(Ok(c)) if c.component.len() >= 16 => Some(c.component.clone()),
                _ => None,
            }
        };
        let vals: Vec<(&str, Option<Vec<u8>>)> = vec![("parent before fork", pv(&warm)), ("first child", val(&a)), ("second child", val(&b)), ("parent after fork", pv(&after))];
        out.note(&format!("call {} across fork: {} values", info.name, vals.iter().filter(|v| v.1.is_some()).count()));
        out.probe("forked.compared");
        for i in 0..vals.len() {
            for j in i + 1..vals.len() {
                if let (Some(x), Some(y)) = (&vals[i].1, &vals[j].1) {
                    if x == y {
                        out.violate(
                            "C11",
                            "c11.fresh_across_fork",
                            site(&[("entry", info.name)]),
                            format!("{} returned the same {}-byte value in the {} and in the {}", info.name, x.len(), vals[i].0, vals[j].0),
                        );
                        return;
                    }
                }
            }
        }
    }

    /// Other threads use the generator too. Each of two fresh threads (started and joined one
    /// after the other, so the order of calls is fixed) makes its first two calls of the entry
    /// point; with the calling thread's value before and after, no two of the six may be equal.
    fn step_threaded(&mut self, ep: u16, arg: u64, info: &EpInfo, out: &mut Out) {
        let warm = guarded(|| self.call(ep, arg));
        let in_thread = |cfg: Config| -> Vec<Option<Vec<u8>>> {
            let h = std::thread::spawn(move || {
                let w = RngWorld::new(&cfg);
                let mut v = Vec::new();
                for _ in 0..2 {
                    v.push(match guarded(|| w.call(ep, arg)) {
                        Ok(Ok(c)) if c.component.len() >= 16 => Some(c.component),
                        _ => None,
                    });
                }
                v
            });
            h.join().unwrap_or_default()
        };
        let t1 = in_thread(self.cfg.clone());
        let t2 = in_thread(self.cfg.clone());
        let after = guarded(|| self.call(ep, arg));
        out.op();
        out.shape(&format!("T{}", ep));
        out.cell(&format!("{}|threaded", info.name));
        out.fault("other_thread_generates");
        let pv = |r: &Result<Result<CallOut, String>, (String, String)>| -> Option<Vec<u8>> {
            match r {
                Ok(Ok(c)) if c.component.len() >= 16 => Some(c.component.clone()),
                _ => None,
            }
        };
        let g = |v: &Vec<Option<Vec<u8>>>, i: usize| -> Option<Vec<u8>> { v.get(i).cloned().flatten() };
        let vals: Vec<(&str, Option<Vec<u8>>)> = vec![
            ("calling thread before", pv(&warm)),
            ("first call of a fresh thread", g(&t1, 0)),
            ("second call of that thread", g(&t1, 1)),
            ("first call of another fresh thread", g(&t2, 0)),
            ("second call of that thread", g(&t2, 1)),
            ("calling thread afterwards", pv(&after)),
        ];
        out.note(&format!("call {} across threads: {} values", info.name, vals.iter().filter(|v| v.1.is_some()).count()));
        out.probe("threaded.compared");
        for i in 0..vals.len() {
            for j in i + 1..vals.len() {
                if let (Some(x), Some(y)) = (&vals[i].1, &vals[j].1) {
                    if x == y {
                        out.violate(
                            "C11",
                            "c11.fresh_across_threads",
                            site(&[("entry", info.name)]),
                            format!("{} returned the same {}-byte value as the {} and as the {}", info.name, x.len(), vals[i].0, vals[j].0),
                        );
                        return;
                    }
                }
            }
        }
    }

    fn step_os_fail(&mut self, ep: u16, arg: u64, info: &EpInfo, out: &mut Out) {
        let r = self.call_in_failing_child(ep, arg);
        out.op();
        out.shape(&format!("F{}", ep));
        out.cell(&format!("{}|os_fail", info.name));
        match r {
            ChildOutcome::Harness(e) => {
                // not being able to inject the fault is not a verdict on the repository
                out.probe("os_fail.not_injectable");
                out.note(&format!("call {} under OS-generator failure: fault not injectable ({})", info.name, e));
            }
            ChildOutcome::Panicked => {
                out.fault("os_generator_refused");
                out.probe("os_fail.panicked");
                out.note(&format!("call {} under OS-generator failure -> no value (panic)", info.name));
            }
            ChildOutcome::Refused(_) => {
                out.fault("os_generator_refused");
                out.probe("os_fail.err");
                out.note(&format!("call {} under OS-generator failure -> Err", info.name));
            }
            ChildOutcome::Returned(v) => {
                out.fault("os_generator_refused");
                out.probe("os_fail.returned");
                out.note(&format!("call {} under OS-generator failure -> returned {} bytes", info.name, v.len()));
                // a value came back although no randomness could be drawn: it cannot be fresh.
                // Sound evidence of that: it is all-zero, or equal to what the previous call returned.
                let zero = v.len() >= 16 && v.iter().all(|b| *b == 0);
                let repeated = v.len() >= 16 && self.last_returned.get(&ep) == Some(&v);
                if zero || repeated {
                    out.violate(
                        "C11",
                        "c11.fresh_under_os_failure",
                        site(&[("entry", info.name)]),
                        format!("the OS generator refused (getrandom -> EINVAL) but {} returned a {} {}-byte value instead of failing", info.name, if zero { "all-zero" } else { "repeated" }, v.len()),
                    );
                }
                self.last_returned.insert(ep, v);
            }
        }
    }
}

extern "C" fn on_alarm(_sig: libc::c_int) {}

/// Start / stop an interval timer that delivers SIGALRM (empty handler, no SA_RESTART) every 50 µs.
fn signal_storm(on: bool) {
    unsafe {
        if on {
            let mut sa: libc::sigaction = std::mem::zeroed();
            sa.sa_sigaction = on_alarm as *const () as usize;
            sa.sa_flags = 0;
            libc::sigemptyset(&mut sa.sa_mask);
            libc::sigaction(libc::SIGALRM, &sa, std::ptr::null_mut());
        }
        let mut set: libc::sigset_t = std::mem::zeroed();
        libc::sigemptyset(&mut set);
        libc::sigaddset(&mut set, libc::SIGALRM);
        if on {
            libc::pthread_sigmask(libc::SIG_UNBLOCK, &set, std::ptr::null_mut());
        }
        let iv = libc::timeval { tv_sec: 0, tv_usec: if on { 50 } else { 0 } };
        let t = libc::itimerval { it_interval: iv, it_value: iv };
        libc::setitimer(libc::ITIMER_REAL, &t, std::ptr::null_mut());
        if !on {
            libc::pthread_sigmask(libc::SIG_BLOCK, &set, std::ptr::null_mut());
        }
    }
}

impl World for RngWorld {
    const NAME: &'static str = "rng";
    type Config = Config;
    type Event = Event;

    fn gen_config(rng: &mut Rng, prop: &str, tier: Tier, _run: u64) -> Config {
        let avail = available_eps();
        let real = rng.chance(1, 12);
        // swarm: a few entry points per run, many calls each (history needs >= 16)
        let k = if real { 2 } else { 2 + rng.usize_below(3) };
        let mut eps = Vec::new();
        while eps.len() < k.min(avail.len()) {
            let e = *rng.pick(&avail);
            if !eps.contains(&e) {
                eps.push(e);
            }
        }
        let calls = if real {
            if tier == Tier::Quick { 64 } else { 256 }
        } else {
            16 + rng.usize_below(17)
        };
        let variant = if real && !cfg!(feature = "nightly") { rng.below(4) } else { 0 };
        let os_fail = variant == 1;
        let forked = variant == 2;
        let threaded = variant == 3;
        let calls = if os_fail || forked || threaded { 6 } else { calls };
        // the two 1 MiB entry points are expensive: at most 16 calls each
        let calls = if eps.iter().any(|e| *e == 63 || *e == 64) { calls.min(16) } else { calls };
        Config { prop: prop.to_string(), rseed: rng.next_u64(), real, os_fail, forked, threaded, eps, calls_per_ep: calls }
    }

    fn new(cfg: &Config) -> Self {
        let ledger = Rc::new(RefCell::new(Ledger::default()));
        if cfg.real {
            dryoc::rng::verif::set_source(None);
        } else {
            let l2 = ledger.clone();
            let mut r = Rng::new(cfg.rseed, 0xc11, 0);
            dryoc::rng::verif::set_source(Some(Box::new(move |dest: &mut [u8]| {
                r.fill(dest);
                if !dest.is_empty() && dest.iter().all(|b| *b == 0) {
                    dest[0] = 1; // the simulated generator never returns an all-zero block
                }
                l2.borrow_mut().draws.push(dest.to_vec());
            })));
        }
        RngWorld {
            reused_state: RefCell::new(dryoc::classic::crypto_secretstream_xchacha20poly1305::State::new()),
            reused_bufs: RefCell::new(([0u8; 32], [0u8; 32], [0u8; 24])),
            last_returned: BTreeMap::new(),
            cfg: cfg.clone(),
            ledger,
            history: BTreeMap::new(),
            plan: Vec::new(),
            planned: false,
        }
    }

    fn next_event(&mut self, rng: &mut Rng) -> Option<Event> {
        if !self.planned {
            self.planned = true;
            let mut plan = Vec::new();
            for e in &self.cfg.eps {
                for _ in 0..self.cfg.calls_per_ep {
                    plan.push(Event::Call { ep: *e, arg: rng.next_u64() % 100_000 });
                }
            }
            // interleave the entry points
            for i in (1..plan.len()).rev() {
                let j = rng.usize_below(i + 1);
                plan.swap(i, j);
            }
            self.plan = plan;
        }
        self.plan.pop()
    }

    fn step(&mut self, ev: &Event, out: &mut Out) {
        let Event::Call { ep, arg } = ev;
        let info = match EPS.get(*ep as usize) {
            Some(i) => i,
            None => return,
        };
        if self.cfg.os_fail {
            self.step_os_fail(*ep, *arg, info, out);
            return;
        }
        if self.cfg.threaded {
            self.step_threaded(*ep, *arg, info, out);
            return;
        }
        if self.cfg.forked {
            self.step_forked(*ep, *arg, info, out);
            return;
        }
        let before = self.ledger.borrow().draws.len();
        // real generator, plain configuration: every other call runs under a storm of signals
        // (an interval timer firing every 50 µs with an empty handler): system calls are
        // interrupted or return early with part of the work done
        let storm = self.cfg.real && *arg % 2 == 0;
        if storm {
            signal_storm(true);
            out.fault("signal_storm");
        }
        let r = guarded(|| self.call(*ep, *arg));
        if storm {
            signal_storm(false);
        }
        out.op();
        out.shape(&format!("C{}", ep));
        out.cell(&format!("{}|{}", info.name, if self.cfg.real { "real" } else { "seam" }));
        let co = match r {
            Ok(Ok(c)) => c,
            Ok(Err(e)) => {
                out.note(&format!("call {} failed: {}", info.name, e));
                out.harness_error(format!("entry point {} failed: {}", info.name, e));
                return;
            }
            Err((l, m)) => {
                out.note(&format!("call {} unwound", info.name));
                out.harness_error(format!("entry point {} unwound: {} at {}", info.name, m, l));
                return;
            }
        };
        out.probe(if self.cfg.real { "call.real" } else { "call.seam" });
        let mode = if self.cfg.real { "real" } else { "seam" };
        if !self.cfg.real {
            out.fault("simulated_generator_draw");
            let drawn: Vec<u8> = self.ledger.borrow().draws[before..].concat();
            // the value itself is never noted: an implementation that obtains (part of) its
            // randomness elsewhere must not make the run digest irreproducible
            out.note(&format!("call {} drew {} component_len {}", info.name, drawn.len(), co.component.len()));
            // The seam's per-call judgement. An entry point that drew fewer bytes than
            // documented, or whose output is not the documented image of its draw, is an
            // *anomaly*; it becomes a violation only with sound evidence that the value is
            // not fresh: a second call returns the same value (or the value is all-zero).
            // (An implementation may legitimately obtain randomness elsewhere or
            // post-process its draw; the history oracle still watches it.)
            let expected: Option<Vec<u8>> = if drawn.len() < co.min_draw {
                None
            } else {
                Some(match co.image {
                    Image::Identity => drawn[..co.min_draw].to_vec(),
                    Image::BoxKeypair => {
                        let mut v = drawn[..32].to_vec();
                        v.extend_from_slice(&box_pk_of(&drawn[..32]));
                        v
                    }
                    Image::SignKeypair => {
                        let seed: [u8; 32] = drawn[..32].try_into().unwrap();
                        let (pk, sk) = dryoc::classic::crypto_sign::crypto_sign_seed_keypair(&seed);
                        let mut v = pk.to_vec();
                        v.extend_from_slice(&sk);
                        v
                    }
                    Image::SealedEpk => box_pk_of(&drawn[..32]).to_vec(),
                })
            };
            let anomaly = match &expected {
                None => Some("drew"),
                Some(e) if *e != co.component => Some("uses_draw"),
                _ => None,
            };
            if let Some(kind) = anomaly {
                out.probe(&format!("anomaly.{}", kind));
                let second = guarded(|| self.call(*ep, *arg));
                // evidence only from values wide enough that chance cannot produce it (2^-128)
                let wide = co.component.len() >= 16;
                let same = wide
                    && match &second {
                        Ok(Ok(c2)) => c2.component == co.component,
                        _ => false,
                    };
                let zero = wide && co.component.iter().all(|b| *b == 0);
                if same || zero {
                    let what = if kind == "drew" {
                        format!("{} drew {} bytes from the generator during the call (documented: at least {})", info.name, drawn.len(), co.min_draw)
                    } else {
                        format!("the value returned by {} ({}…) is not the image of the {} bytes drawn in this call", info.name, hex(&co.component[..co.component.len().min(16)]), drawn.len())
                    };
                    out.violate(
                        "C11",
                        if kind == "drew" { "c11.drew" } else { "c11.uses_draw" },
                        site(&[("entry", info.name)]),
                        format!("{}, and {}", what, if zero { "the value is all-zero" } else { "the next call returned the same value again" }),
                    );
                }
            }
        } else {
            // never put real random bytes into the run digest
            out.note(&format!("call {} (real generator) component_len {}", info.name, co.component.len()));
        }
        if co.component.len() >= 32 {
            let n = co.component.len();
            for (what, part) in [("first", &co.component[..16]), ("last", &co.component[n - 16..])] {
                if part.iter().all(|b| *b == 0) {
                    out.violate("C11", "c11.nonzero", site(&[("entry", info.name), ("configuration", mode)]), format!("the {} 16 bytes of the {}-byte value returned by {} are all zero", what, n, info.name));
                }
            }
        }
        // large values: no 64 consecutive zero bytes anywhere (a request the OS served only in part)
        if co.component.len() > 256 {
            let mut run = 0usize;
            let mut at: Option<usize> = None;
            for (i, b) in co.component.iter().enumerate() {
                if *b == 0 {
                    run += 1;
                    if run == 64 {
                        at = Some(i + 1 - 64);
                        break;
                    }
                } else {
                    run = 0;
                }
            }
            if let Some(off) = at {
                out.violate("C11", "c11.nonzero", site(&[("entry", info.name), ("configuration", mode), ("what", "zero_run")]), format!("bytes {}..{} of the {}-byte value returned by {} are all zero (never randomised)", off, off + 64, co.component.len(), info.name));
            }
        }
        if co.component.len() >= 16 && co.component.iter().all(|b| *b == 0) {
            out.violate("C11", "c11.nonzero", site(&[("entry", info.name), ("configuration", mode)]), format!("{} returned an all-zero {}-byte value", info.name, co.component.len()));
        }
        // independence inside one value: where the value is documented as raw random bytes
        // (keys, nonces, headers, salts, key || context), no 8-byte window may occur twice
        // (chance: < 2^-50 for values up to 128 bytes)
        if co.image == Image::Identity && co.component.len() >= 16 && co.component.len() <= 128 {
            out.probe("independence.evaluated");
            let c = &co.component;
            let n = c.len();
            let mut hit: Option<(usize, usize)> = None;
            'outer: for i in 0..=n - 16 {
                for j in i + 8..=n - 8 {
                    if c[i..i + 8] == c[j..j + 8] {
                        hit = Some((i, j));
                        break 'outer;
                    }
                }
            }
            if let Some((i, j)) = hit {
                out.violate(
                    "C11",
                    "c11.independent",
                    site(&[("entry", info.name), ("configuration", mode)]),
                    format!("bytes {}..{} of the {}-byte value returned by {} are a copy of its bytes {}..{}: the parts are not independent draws", j, j + 8, n, info.name, i, i + 8),
                );
            }
        }
        if info.history {
            self.history.entry(*ep).or_default().push(co.component);
        }
    }

    fn finish(&mut self, out: &mut Out) {
        let mode = if self.cfg.real { "real" } else { "seam" };
        for (ep, vals) in &self.history {
            let info = &EPS[*ep as usize];
            // distinctness
            let mut sorted: Vec<&Vec<u8>> = vals.iter().collect();
            sorted.sort();
            // values narrower than 16 bytes could collide by chance (8-byte KDF contexts: 2^-53 per run)
            let dup = sorted.windows(2).any(|w| w[0] == w[1] && w[0].len() >= 16);
            if dup {
                out.violate("C11", "c11.distinct", site(&[("entry", info.name), ("configuration", mode)]), format!("{} returned the same value twice within {} calls", info.name, vals.len()));
            }
            // no byte position constant across >= 16 calls (false alarm < 2^-100)
            if vals.len() >= 16 {
                out.probe("history.byte_varies_evaluated");
                let w = vals[0].len();
                if vals.iter().all(|v| v.len() == w) {
                    let mut constant = Vec::new();
                    for p in 0..w {
                        // the clamped/derived parts of key pairs are not "random components":
                        // only judge positions of the drawn part for key pairs
                        if vals.iter().all(|v| v[p] == vals[0][p]) {
                            constant.push(p);
                        }
                    }
                    if !constant.is_empty() {
                        out.violate(
                            "C11",
                            "c11.byte_varies",
                            site(&[("entry", info.name), ("configuration", mode)]),
                            format!("byte position(s) {:?} of the value returned by {} are constant across {} calls", &constant[..constant.len().min(8)], info.name, vals.len()),
                        );
                    }
                }
            }
        }
        out.note(&format!("finish: {} entry points with history", self.history.len()));
    }

    fn prop_of(cfg: &Config) -> String {
        cfg.prop.clone()
    }
}

impl Drop for RngWorld {
    fn drop(&mut self) {
        dryoc::rng::verif::set_source(None);
    }
}
