use dryoc_sim::kit::orch::*;
use dryoc_sim::kit::*;
use dryoc_sim::plan;
use dryoc_sim::worlds;
use std::collections::BTreeMap;

fn args_map(args: &[String]) -> BTreeMap<String, String> {
    let mut m = BTreeMap::new();
    let mut i = 0;
    while i < args.len() {
        if let Some(k) = args[i].strip_prefix("--") {
            if i + 1 < args.len() && !args[i + 1].starts_with("--") {
                m.insert(k.to_string(), args[i + 1].clone());
                i += 2;
            } else {
                m.insert(k.to_string(), "1".to_string());
                i += 1;
            }
        } else {
            i += 1;
        }
    }
    m
}

macro_rules! with_world {
    ($name:expr, $body:ident, $($args:expr),*) => {
        match $name {
            "chunk" => $body::<worlds::chunk::ChunkWorld>($($args),*),
            "box" => $body::<worlds::boxw::BoxWorld>($($args),*),
            "stream" => $body::<worlds::stream::StreamWorld>($($args),*),
            "verifier" => $body::<worlds::verifier::VerifierWorld>($($args),*),
            "rng" => $body::<worlds::rngw::RngWorld>($($args),*),
            #[cfg(feature = "nightly")]
            "mem" => $body::<worlds::mem::MemWorld>($($args),*),
            other => {
                eprintln!("unknown world {} in this build ({})", other, plan::build_name());
                2
            }
        }
    };
}

fn do_worker<W: World>(m: &BTreeMap<String, String>) -> i32 {
    let a = WorkerArgs {
        prop: m["prop"].clone(),
        tier: Tier::parse(&m["tier"]).unwrap(),
        seed: m["seed"].parse().unwrap(),
        runs: m["runs"].parse().unwrap(),
        stride: m["stride"].parse().unwrap(),
        offset: m["offset"].parse().unwrap(),
        prefix: m["prefix"].clone(),
        skip: m.get("skip").map(|s| s.split(',').filter(|x| !x.is_empty() && *x != "1").filter_map(|x| x.parse().ok()).collect()).unwrap_or_default(),
        samples: m.get("samples").and_then(|s| s.parse().ok()).unwrap_or(0),
    };
    worker::<W>(a)
}

fn do_genexec<W: World>(m: &BTreeMap<String, String>) -> i32 {
    genexec::<W>(m["seed"].parse().unwrap(), m["run"].parse().unwrap(), &m["prop"], Tier::parse(&m["tier"]).unwrap())
}

fn do_exec<W: World>(rf: &ReplayFile, trace: bool) -> i32 {
    exec_file::<W>(rf, trace)
}

fn do_replay<W: World>(rf: &ReplayFile, trace: bool) -> i32 {
    replay_cmd::<W>(rf, trace)
}

fn do_leg<W: World>(leg: &Leg, a: &CheckArgs, out: &mut Vec<LegResult>) -> i32 {
    out.push(run_leg::<W>(leg, a));
    0
}

fn load_rf(path: &str) -> Result<ReplayFile, i32> {
    let b = std::fs::read(path).map_err(|e| {
        eprintln!("cannot read {}: {}", path, e);
        2
    })?;
    serde_json::from_slice(&b).map_err(|e| {
        eprintln!("cannot parse {}: {}", path, e);
        2
    })
}

fn seed_from_env() -> u64 {
    std::env::var("VERIF_SEED").ok().and_then(|s| s.trim().parse::<i128>().ok()).map(|v| v as u64).unwrap_or(DEFAULT_SEED)
}

fn main() {
    install_panic_hook();
    let argv: Vec<String> = std::env::args().collect();
    if argv.len() < 2 {
        eprintln!("usage: simctl check|report|worker|genexec|exec|replay ...");
        std::process::exit(2);
    }
    let m = args_map(&argv[2..]);
    let code = match argv[1].as_str() {
        "worker" => with_world!(m["world"].as_str(), do_worker, &m),
        "genexec" => with_world!(m["world"].as_str(), do_genexec, &m),
        "exec" => match load_rf(&m["file"]) {
            Ok(rf) => with_world!(rf.world.as_str(), do_exec, &rf, m.contains_key("trace")),
            Err(c) => c,
        },
        "replay" => match load_rf(&m["file"]) {
            Ok(rf) => {
                let c = with_world!(rf.world.as_str(), do_replay, &rf, m.contains_key("trace"));
                if c == 1 {
                    println!("VIOLATION property={} replay={}", rf.property, m["file"]);
                }
                c
            }
            Err(c) => c,
        },
        // run this build's legs for a property, store leg results
        "legs" => {
            let prop = m["prop"].clone();
            let tier = Tier::parse(m.get("tier").map(|s| s.as_str()).unwrap_or("quick")).unwrap_or(Tier::Quick);
            let seed = m.get("seed").and_then(|s| s.parse().ok()).unwrap_or_else(seed_from_env);
            let workers = m.get("workers").and_then(|s| s.parse().ok()).unwrap_or(16);
            let workdir = format!("{}/work/{}", verif_root(), prop);
            std::fs::create_dir_all(&workdir).ok();
            let a = CheckArgs { prop: prop.clone(), tier, seed, workers, build: plan::build_name().to_string(), workdir: workdir.clone(), runs_override: None };
            let mut legs = plan::legs(&prop, tier);
            if let Some(r) = m.get("runs").and_then(|s| s.parse::<u64>().ok()) {
                for l in legs.iter_mut() {
                    l.runs = r;
                }
            }
            if let Some(only) = m.get("only") {
                legs.retain(|l| &l.name == only);
            }
            let mut results = Vec::new();
            let mut code = 0;
            for l in &legs {
                eprintln!("[{}] leg {} (world {}, {} runs, build {})", prop, l.name, l.world, l.runs, plan::build_name());
                let c = with_world!(l.world, do_leg, l, &a, &mut results);
                if c != 0 {
                    code = c;
                }
            }
            for r in &results {
                std::fs::write(format!("{}/leg-{}.json", workdir, r.leg), serde_json::to_vec(r).unwrap()).expect("write leg result");
            }
            code
        }
        "report" => {
            let prop = m["prop"].clone();
            let tier = Tier::parse(m.get("tier").map(|s| s.as_str()).unwrap_or("quick")).unwrap_or(Tier::Quick);
            let seed = m.get("seed").and_then(|s| s.parse().ok()).unwrap_or_else(seed_from_env);
            let wall: f64 = m.get("wall").and_then(|s| s.parse().ok()).unwrap_or(0.0);
            let workdir = format!("{}/work/{}", verif_root(), prop);
            let mut legs: Vec<LegResult> = Vec::new();
            let mut names: Vec<String> = std::fs::read_dir(&workdir)
                .map(|d| d.filter_map(|e| e.ok()).map(|e| e.file_name().to_string_lossy().to_string()).filter(|n| n.starts_with("leg-") && n.ends_with(".json")).collect())
                .unwrap_or_default();
            names.sort();
            for n in names {
                match std::fs::read(format!("{}/{}", workdir, n)).ok().and_then(|b| serde_json::from_slice(&b).ok()) {
                    Some(l) => legs.push(l),
                    None => {
                        println!("HARNESS-ERROR: unreadable leg result {}", n);
                        std::process::exit(2);
                    }
                }
            }
            if legs.is_empty() {
                println!("HARNESS-ERROR: no leg results for {}", prop);
                std::process::exit(2);
            }
            let wall = if wall > 0.0 { wall } else { legs.iter().map(|l| l.wall_s).sum() };
            report(plan::meta(&prop, tier, seed), &legs, wall)
        }
        other => {
            eprintln!("unknown subcommand {}", other);
            2
        }
    };
    std::process::exit(code);
}
