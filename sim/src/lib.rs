#![cfg_attr(feature = "nightly", feature(allocator_api))]
pub mod kit;
pub mod plan;
pub mod worlds;

#[global_allocator]
static GLOBAL: kit::alloc::Counting = kit::alloc::Counting;
