//! Which worlds decide which property, with what budget, and the evidence
//! meta data (rule, assumptions, real/stub components).

use crate::kit::orch::{Leg, ReportMeta};
use crate::kit::Tier;

pub fn is_nightly_build() -> bool {
    cfg!(feature = "nightly")
}

pub fn build_name() -> &'static str {
    if cfg!(feature = "simd") {
        "N-simd (nightly, features nightly+simd_backend)"
    } else if cfg!(feature = "nightly") {
        "N (nightly, feature nightly)"
    } else {
        "S (stable, overflow-checks on)"
    }
}

fn leg(name: &str, world: &'static str, runs: u64, req: &[&'static str]) -> Leg {
    Leg { name: name.to_string(), world, runs, required_probes: req.to_vec() }
}

/// Legs for `prop` in *this* build.
pub fn legs(prop: &str, tier: Tier) -> Vec<Leg> {
    let q = tier == Tier::Quick;
    let n = is_nightly_build();
    let simd = cfg!(feature = "simd");
    match prop {
        "C08" => {
            if simd {
                vec![leg("chunk-simd", "chunk", if q { 100_000 } else { 5_000_000 }, &["final", "chunk.0", "chunk.=fill", "pending.B"])]
            } else if n {
                vec![]
            } else {
                vec![leg("chunk", "chunk", if q { 400_000 } else { 20_000_000 }, &["final", "chunk.0", "chunk.=fill", "chunk.fill+1", "chunk.fill-1", "pending.B", "pending.B-1", "pending.0"])]
            }
        }
        "C02" => {
            if n {
                vec![]
            } else {
                vec![
                    leg("box", "box", if q { 60_000 } else { 2_500_000 }, &["deliver.identical", "deliver.corrupted.rejected", "flip.tag", "flip.body", "flip.nonce", "flip.epk", "flip.key", "truncate", "extend"]),
                    leg("stream", "stream", if q { 30_000 } else { 1_500_000 }, &["deliver.next.accepted", "deliver.corrupted.rejected", "flip.header", "flip.key", "ad.flip", "flip.body", "flip.mac", "flip.tagbyte", "truncate", "extend"]),
                ]
            }
        }
        "C03" => {
            if n {
                vec![]
            } else {
                vec![leg(
                    "stream",
                    "stream",
                    if q { 60_000 } else { 5_000_000 },
                    &["deliver.next.accepted", "drain.all_accepted", "tx.counter_wrap", "rx.counter_wrap_rekey", "tx.explicit_rekey", "rx.explicit_rekey", "tx.rekey_tag", "tx.any_tag_byte", "replay", "skip", "foreign", "ad.flip", "ad.truncate", "ad.extend", "ad.presence", "flip.body", "flip.mac", "flip.tagbyte"],
                )]
            }
        }
        "C17" => {
            if n {
                vec![]
            } else {
                vec![
                    leg("box", "box", if q { 60_000 } else { 2_500_000 }, &["c17.observed_reject", "flip.tag", "flip.body", "truncate", "extend"]),
                    leg("stream", "stream", if q { 30_000 } else { 1_500_000 }, &["c17.observed_reject", "flip.body", "flip.mac", "flip.tagbyte", "ad.flip", "truncate", "extend"]),
                ]
            }
        }
        "C04" => {
            if n {
                vec![leg("box-n", "box", if q { 20_000 } else { 1_000_000 }, &["truncate", "garbage"]), leg("stream-n", "stream", if q { 10_000 } else { 500_000 }, &["truncate", "garbage"])]
            } else {
                vec![leg("box", "box", if q { 60_000 } else { 3_000_000 }, &["truncate", "garbage", "extend", "splice"]), leg("stream", "stream", if q { 40_000 } else { 2_000_000 }, &["truncate", "garbage", "tx.any_tag_byte"]), leg("verifier", "verifier", if q { 30_000 } else { 1_500_000 }, &["truncate", "garbage", "flip", "seg.drop", "seg.dup", "seg.swap", "seg.empty", "char.replace", "num.replace", "verdict.accept", "verdict.reject"])]
            }
        }
        "C11" => {
            if n {
                vec![leg("rng-n", "rng", if q { 600 } else { 30_000 }, &["call.seam", "call.real", "history.byte_varies_evaluated"])]
            } else {
                vec![leg("rng", "rng", if q { 3_000 } else { 150_000 }, &["call.seam", "call.real", "history.byte_varies_evaluated"])]
            }
        }
        _ => vec![],
    }
}

pub fn meta(prop: &str, tier: Tier, seed: u64) -> ReportMeta {
    let real_common = vec![
        "all of dryoc (built from /repo's working tree, features verif_hooks+base64)".to_string(),
        "RustCrypto / dalek dependencies".to_string(),
    ];
    let (level, rule, assumptions, real, stub): (&'static str, String, Vec<String>, Vec<String>, Vec<String>) = match prop {
        "C08" => (
            "exploration",
            "each run = one (primitive, API flavour, key, message) fed through the read→update loop by a seeded short-read schedule (zero-length reads, dribble, block-aligned, off-by-one, top-up of the pending buffer, one huge piece), then Final compared with the one-shot function over the same bytes. distinct = distinct run shape (primitive + sequence of (pending-buffer class, chunk class) pairs); non-trivial = at least one short/zero-length read fired or ≥3 SUT operations.".to_string(),
            vec![
                "the one-shot function is the reference (its own correctness is C07, not judged here)".to_string(),
                "incremental signing has no one-shot form in the API: the reference is the single-update run plus acceptance by the incremental verifier".to_string(),
                "seeded sampling of schedules, not enumeration".to_string(),
            ],
            real_common.clone(),
            vec!["the reader that cuts the stream (the simulator's schedule)".to_string()],
        ),
        _ => ("exploration", String::new(), vec![], real_common.clone(), vec![]),
    };
    ReportMeta {
        prop: prop.to_string(),
        tier,
        seed,
        level,
        rule,
        assumptions,
        components_real: real,
        components_stub: stub,
        extra: serde_json::json!({}),
    }
}
