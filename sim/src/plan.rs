//! Which worlds decide which property, with what budget, and the evidence
//! meta data (rule, assumptions, real/stub components).

use crate::kit::orch::{Leg, ReportMeta};
use crate::kit::Tier;

pub fn is_nightly_build() -> bool {
    cfg!(feature = "nightly")
}

pub fn build_name() -> &'static str {
    if cfg!(feature = "simd") {
        "N-simd (nightly, features nightly+simd_backend)"
    } else if cfg!(feature = "nightly") {
        "N (nightly, feature nightly)"
    } else {
        "S (stable, overflow-checks on)"
    }
}

fn leg(name: &str, world: &'static str, runs: u64, req: &[&'static str]) -> Leg {
    Leg { name: name.to_string(), world, runs, required_probes: req.to_vec() }
}

/// Legs for `prop` in *this* build.
pub fn legs(prop: &str, tier: Tier) -> Vec<Leg> {
    let q = tier == Tier::Quick;
    let n = is_nightly_build();
    let simd = cfg!(feature = "simd");
    match prop {
        "C08" => {
            if simd {
                vec![leg("chunk-simd", "chunk", if q { 400_000 } else { 5_000_000 }, &["final", "chunk.0", "chunk.=fill", "pending.B"])]
            } else if n {
                vec![]
            } else {
                vec![leg("chunk", "chunk", if q { 1_500_000 } else { 25_000_000 }, &["final", "chunk.0", "chunk.=fill", "chunk.fill+1", "chunk.fill-1", "pending.B", "pending.B-1", "pending.0"])]
            }
        }
        "C02" => {
            if n {
                // the receivers instantiated with the protected containers
                vec![
                    leg("box-n", "box", if q { 60_000 } else { 1_000_000 }, &["deliver.identical", "deliver.corrupted.rejected", "flip.tag", "flip.body", "truncate", "extend"]),
                    leg("stream-n", "stream", if q { 60_000 } else { 1_000_000 }, &["deliver.next.accepted", "deliver.corrupted.rejected", "flip.body", "flip.mac", "truncate", "extend"]),
                ]
            } else {
                vec![
                    leg("box", "box", if q { 300_000 } else { 6_000_000 }, &["deliver.identical", "deliver.corrupted.rejected", "flip.tag", "flip.body", "flip.nonce", "flip.epk", "flip.key", "truncate", "extend"]),
                    leg("stream", "stream", if q { 300_000 } else { 4_000_000 }, &["deliver.next.accepted", "deliver.corrupted.rejected", "flip.header", "flip.key", "ad.flip", "flip.body", "flip.mac", "flip.tagbyte", "truncate", "extend"]),
                ]
            }
        }
        "C03" => {
            if n {
                vec![]
            } else {
                vec![leg(
                    "stream",
                    "stream",
                    if q { 1_000_000 } else { 20_000_000 },
                    &["deliver.next.accepted", "drain.all_accepted", "tx.counter_wrap", "rx.counter_wrap_rekey", "tx.explicit_rekey", "rx.explicit_rekey", "tx.rekey_tag", "tx.any_tag_byte", "replay", "skip", "foreign", "ad.flip", "ad.truncate", "ad.extend", "ad.presence", "flip.body", "flip.mac", "flip.tagbyte"],
                )]
            }
        }
        "C17" => {
            if n {
                vec![]
            } else {
                vec![
                    leg("box", "box", if q { 300_000 } else { 6_000_000 }, &["c17.observed_reject", "flip.tag", "flip.body", "truncate", "extend"]),
                    leg("stream", "stream", if q { 300_000 } else { 4_000_000 }, &["c17.observed_reject", "flip.body", "flip.mac", "flip.tagbyte", "ad.flip", "truncate", "extend"]),
                ]
            }
        }
        "C04" => {
            if n {
                vec![leg("box-n", "box", if q { 60_000 } else { 1_500_000 }, &["truncate", "garbage"]), leg("stream-n", "stream", if q { 60_000 } else { 1_500_000 }, &["truncate", "garbage"]), leg("verifier-n", "verifier", if q { 30_000 } else { 500_000 }, &["truncate", "garbage", "flip", "verdict.accept", "verdict.reject"])]
            } else {
                vec![leg("box", "box", if q { 300_000 } else { 8_000_000 }, &["truncate", "garbage", "extend", "splice"]), leg("stream", "stream", if q { 300_000 } else { 8_000_000 }, &["truncate", "garbage", "tx.any_tag_byte"]), leg("verifier", "verifier", if q { 150_000 } else { 4_000_000 }, &["truncate", "garbage", "flip", "seg.drop", "seg.dup", "seg.swap", "seg.empty", "char.replace", "num.replace", "verdict.accept", "verdict.reject"])]
            }
        }
        "C14" => {
            if n && !simd {
                vec![leg("mem", "mem", if q { 40_000 } else { 1_000_000 }, &["probe.rights", "probe.lock", "probe.guard", "probe.vmlck", "release.observed"])]
            } else {
                vec![]
            }
        }
        "C15" => {
            if n && !simd {
                vec![leg("mem", "mem", if q { 40_000 } else { 1_000_000 }, &["release.observed", "release.path.drop", "release.path.grow", "release.path.shrink_then_drop", "release.path.locked_resize", "release.path.clone_drop"])]
            } else {
                vec![]
            }
        }
        "C19" => {
            if n && !simd {
                // runs = base walks x 56 fault plans (none, refuse_from 1..16, refuse_once 1..16, budget 0..14, refuse_all_from 1..8)
                vec![leg("mem", "mem", 56 * if q { 900 } else { 26_000 }, &["plan.fired", "mlock_refused.refuse_from", "mlock_refused.refuse_once", "mlock_refused.budget", "mlock_refused.refuse_all_from"])]
            } else {
                vec![]
            }
        }
        "C11" => {
            if n {
                vec![leg("rng-n", "rng", if q { 3_000 } else { 60_000 }, &["call.seam", "call.real", "history.byte_varies_evaluated"])]
            } else {
                vec![leg("rng", "rng", if q { 20_000 } else { 400_000 }, &["call.seam", "call.real", "history.byte_varies_evaluated"])]
            }
        }
        _ => vec![],
    }
}

pub fn meta(prop: &str, tier: Tier, seed: u64) -> ReportMeta {
    let real_common = vec![
        "all of dryoc (built from /repo's working tree, features verif_hooks+base64)".to_string(),
        "RustCrypto / dalek dependencies".to_string(),
    ];
    let (level, rule, assumptions, real, stub): (&'static str, String, Vec<String>, Vec<String>, Vec<String>) = match prop {
        "C08" => (
            "exploration",
            "each run = one (primitive, API flavour, key, message) fed through the read→update loop by a seeded short-read schedule (zero-length reads, dribble, block-aligned, off-by-one, top-up of the pending buffer, one huge piece), then Final compared with the one-shot function over the same bytes. distinct = distinct run shape (primitive + sequence of (pending-buffer class, chunk class) pairs); non-trivial = at least one short/zero-length read fired or ≥3 SUT operations.".to_string(),
            vec![
                "the one-shot function is the reference (its own correctness is C07, not judged here)".to_string(),
                "incremental signing has no one-shot form in the API: the reference is the single-update run plus acceptance by the incremental verifier".to_string(),
                "seeded sampling of schedules, not enumeration".to_string(),
            ],
            real_common.clone(),
            vec!["the reader that cuts the stream (the simulator's schedule)".to_string()],
        ),
        "C02" => (
            "exploration",
            "each run = one (suite, sender API form, receiver API form) with keys from the simulated generator; 1-3 tuples are sealed, each delivered untampered (must open to the original), then with exactly one corruption per delivery (flip of one bit of tag/body/nonce/ephemeral key/symmetric key, truncation by k bytes, extension by k bytes; for streams also header/key/AD/tag-byte flips) and untampered again. Expected verdict = byte identity of the delivered tuple with the sealed one. distinct = distinct run shape (suite + forms + sequence of (fault kind, identical?) + bucketed lengths); non-trivial = a fault fired or >=3 SUT operations. state_coverage_cells = distinct (suite, receiver form, len<=64, component, bit | truncation length) cells hit.".to_string(),
            vec!["accidental acceptance of a corrupted tuple has probability <= 2^-100 per case (Poly1305)".to_string(), "bits of X25519 secret / sender public keys are not in the fault set (clamping makes some flips void; the property does not list them)".to_string(), "a receiver that unwinds counts as 'not accepted' here; the unwind itself is C04's business".to_string()],
            real_common.clone(),
            vec!["OS random generator (hook H1, seeded)".to_string(), "the channel between sender and receiver".to_string()],
        ),
        "C03" => (
            "exploration",
            "each run = one history over {push(mlen, ad, tag), rekey-both, deliver-next, deliver-wrong(replay|skip|foreign|AD flip/truncate/extend/presence|bit flip in tag byte/body/mac|truncate|extend|header/key flip|garbage), drain} started from a counter class in {1, mid, 0xfffffffd, 0xfffffffe, 0xffffffff} installed through hook H2, for each API flavour of both ends; libsodium's secretstream is driven by the same history and ciphertext bytes, (key, nonce) states and verdicts are compared after every event. distinct = distinct run shape; state_coverage_cells = distinct (counter class, event kind, tag class, mlen mod 16, adlen mod 16, flavour) tuples.".to_string(),
            vec!["libsodium 1.0.18 (system library) is the trusted reference replica".to_string(), "histories are <= 27 events; sampled, not enumerated".to_string()],
            {
                let mut v = real_common.clone();
                v.push("libsodium 1.0.18 crypto_secretstream_xchacha20poly1305 (C, linked)".to_string());
                v
            },
            vec!["OS random generator (hook H1, seeded)".to_string(), "the channel between push and pull side".to_string(), "counter presets through hook H2".to_string()],
        ),
        "C04" => (
            "exploration",
            "each run = one receiving entry point fed by the faulty channel/store: truncation to every shorter length, extension, bit flip, splice, garbage (zeros/0xff/random/grammar alphabet) of every length 0..=2*overhead+64, authentic stream messages with any tag byte, and for password-hash strings segment-level store faults (lost/duplicated/swapped/emptied '$' segment, replaced character, replaced m/t/p/v number incl. 0, 2^32-1, 2^32, 2^64-1). Judged: the call returns (no unwind), the worker process survives, the largest single allocation stays <= 8*input+16 MiB (+ guarded m for pwhash). distinct = distinct run shape; cells = (receiver, fault kind, delivered length).".to_string(),
            vec!["only totality is judged, not accept/reject correctness".to_string(), "password-hash strings with m > 1024 KiB or t > 4 are parsed (needs_rehash/from_string) but not handed to functions that would compute".to_string(), "string faults are segment-level, not a full grammar-directed generator".to_string(), "caller-chosen output buffers are sized as the API documents (ciphertext length minus overhead)".to_string()],
            real_common.clone(),
            vec!["OS random generator (hook H1, seeded)".to_string(), "the channel / store between producer and verifier".to_string()],
        ),
        "C11" => (
            "exploration",
            "each run = 2-4 randomised entry points (from the static table of every non-test call site of copy_randombytes / randombytes_buf / gen), 16-32 interleaved calls each, with the generator behind seam H1: per call the ledger must grow by the documented number of bytes and the random component of the result must be (the documented image of) exactly the bytes drawn in that call; per run no value repeats, none is all-zero, no byte position is constant across >=16 calls. One run in twelve uses no seam at all (the shipped OsRng path) with the history oracle only. distinct = distinct run shape (sequence of entry points).".to_string(),
            vec!["the entry-point table is static; a randomised entry point added to dryoc later is not covered until the table is extended".to_string(), "false-alarm probability of the history oracle < 2^-100 per run".to_string(), "scalarmult_base / seed_keypair (pure functions of the draw) are used to compute the expected image".to_string()],
            real_common.clone(),
            vec!["OS random generator (hook H1) in the seam configuration; the real OsRng in the 'real' configuration".to_string()],
        ),
        "C14" => (
            "exploration",
            "each run = one seeded walk (8-30 events) over constructors, mlock/munlock/readonly/readwrite/noaccess transitions (offered exactly where the types offer them), clone, resize, write, read, drop and raw allocate/deallocate, for HeapBytes of many lengths and HeapByteArray<N>, N in {0,1,16,32,64,4095,4096,4097,8192,8193}, up to 4 live regions. After every event, for every live region: effective rights of the first and last data byte of every data page (EFAULT probing) and /proc/self/smaps perms == promised protect mode; VM_LOCKED of every data page == promised lock mode; page before the data and last page of the allocation inaccessible; contents == model; VmLck == page size x |pages of regions promised Locked|. After the last drop: VmLck == 0, every page ever handed out is rw and unlocked. state_coverage_cells = (event, type state, container kind, length class) edges.".to_string(),
            vec!["Linux, 4 KiB pages, readable /proc/self/{smaps,status,mem}; nothing else in the worker locks memory".to_string(), "kernel behaviour encoded: mprotect rounds up to pages; mlock of a PROT_NONE range returns ENOMEM but leaves VM_LOCKED set".to_string(), "walks are sampled".to_string()],
            {
                let mut v = real_common.clone();
                v.push("the Linux kernel's mlock/munlock/mprotect/madvise (forwarded by raw syscall)".to_string());
                v.push("glibc malloc (__libc_memalign/__libc_free, forwarded)".to_string());
                v
            },
            vec!["libc symbols mlock/munlock/mprotect/madvise/posix_memalign/free are defined by the simulator binary (record + forward)".to_string(), "OS random generator (hook H1)".to_string()],
        ),
        "C15" => (
            "exploration",
            "the C14 walk workload biased to release paths (drop, grow across a reallocation, shrink then drop, locked copy-resize, clone then drop, error paths under lock-refusal plans). Every block from the page-aligned allocator is handed out zero-filled by the simulator's posix_memalign and the harness writes only non-zero bytes; when dryoc passes a block to free the whole block (guards, data, spare capacity) is read through /proc/self/mem and must be all-zero; a block never handed back must not hold non-zero bytes at the end of the run. distinct = distinct run shape; probes release.path.* count releases per path.".to_string(),
            vec!["observation is at libc free, i.e. before the system allocator sees the block".to_string(), "the raw Allocate/Deallocate events wipe their own bytes (the caller's duty there); only container releases are judged".to_string()],
            {
                let mut v = real_common.clone();
                v.push("glibc malloc (forwarded)".to_string());
                v.push("the Linux kernel's memory syscalls (forwarded)".to_string());
                v
            },
            vec!["posix_memalign (zero-fills) and free (inspects) are defined by the simulator binary".to_string(), "injected mlock refusals in one run out of four".to_string()],
        ),
        "C17" => (
            "exploration",
            "the C02/C03 single-corruption workload delivered through every classic receiver that writes into a caller buffer; before each call the message buffer holds a sentinel (in-place forms: the delivered ciphertext) and the stream tag variable a sentinel; after Err every buffer byte must equal its previous value or zero and the tag variable must be untouched. distinct = distinct run shape.".to_string(),
            vec!["byte-wise 'unchanged or zero' so that a partial wipe is not flagged".to_string(), "object-API receivers return only an error by type (counted, not judged)".to_string()],
            real_common.clone(),
            vec!["OS random generator (hook H1, seeded)".to_string(), "the channel".to_string()],
        ),
        "C19" => (
            "fault_enumeration",
            "base walks of the C14 workload are sampled from the seed; for each base walk the refusal space is enumerated: plan 0 = none, refuse_from(k) for k = 1..16 (ENOMEM/EPERM), refuse_once(k, EAGAIN) for k = 1..16, budget(B pages) for B = 0..14, refuse_all_from(k, EPERM: locking and unlocking both denied) for k = 1..8 — 56 executions per walk, the policy caps a walk at 16 lock requests and 14 locked pages so that every k and B of the walk is covered. Judged: every Result-returning constructor/transition returns (no unwind, worker survives); after a refusal every live region still satisfies the C14 invariants; released blocks are wiped; VmLck == 0 and no page left protected at the end. distinct = distinct run shape among executions in which a refusal fired.".to_string(),
            vec!["a refusal is injected instead of the system call (limit-check model: the range is untouched)".to_string(), "operations whose signature returns no Result (clone, resize, Default, new_bytes on locked types) are documented to panic and may".to_string(), "base walks are sampled; only the refusal index / budget dimension is enumerated".to_string()],
            {
                let mut v = real_common.clone();
                v.push("the Linux kernel's memory syscalls for every non-refused call".to_string());
                v
            },
            vec!["refused mlock calls (injected by the simulator's mlock symbol)".to_string(), "posix_memalign/free observers".to_string()],
        ),
        _ => ("exploration", String::new(), vec![], real_common.clone(), vec![]),
    };
    ReportMeta {
        prop: prop.to_string(),
        tier,
        seed,
        level,
        rule,
        assumptions,
        components_real: real,
        components_stub: stub,
        extra: if prop == "C19" {
            serde_json::json!({"exhaustive": false, "enumerated_dimension": "per base walk: refuse_from k=1..16, refuse_once k=1..16, budget B=0..14, refuse_all_from (mlock and munlock) k=1..8 (56 plans incl. none)", "plans_per_walk": 56})
        } else {
            serde_json::json!({})
        },
    }
}
