//! Own PRNG: xoshiro256** seeded through splitmix64. No external crate, no
//! global state: one integer (VERIF_SEED) + world id + run index decide
//! everything a run does.

#[derive(Clone, Debug)]
pub struct Rng {
    s: [u64; 4],
}

pub fn splitmix64(x: &mut u64) -> u64 {
    *x = x.wrapping_add(0x9e3779b97f4a7c15);
    let mut z = *x;
    z = (z ^ (z >> 30)).wrapping_mul(0xbf58476d1ce4e5b9);
    z = (z ^ (z >> 27)).wrapping_mul(0x94d049bb133111eb);
    z ^ (z >> 31)
}

pub fn fnv1a(bytes: &[u8]) -> u64 {
    let mut h = 0xcbf29ce484222325u64;
    for b in bytes {
        h ^= *b as u64;
        h = h.wrapping_mul(0x100000001b3);
    }
    h
}

impl Rng {
    pub fn new(seed: u64, stream: u64, run: u64) -> Self {
        let mut x = seed ^ stream.wrapping_mul(0xd6e8feb86659fd93) ^ run.wrapping_mul(0xa0761d6478bd642f);
        // extra scrambling so that neighbouring run indices are unrelated
        let mut s = [0u64; 4];
        for w in s.iter_mut() {
            *w = splitmix64(&mut x);
        }
        if s == [0; 4] {
            s[0] = 1;
        }
        Rng { s }
    }

    pub fn from_label(seed: u64, label: &str, run: u64) -> Self {
        Self::new(seed, fnv1a(label.as_bytes()), run)
    }

    #[inline]
    pub fn next_u64(&mut self) -> u64 {
        let r = self.s[1].wrapping_mul(5).rotate_left(7).wrapping_mul(9);
        let t = self.s[1] << 17;
        self.s[2] ^= self.s[0];
        self.s[3] ^= self.s[1];
        self.s[1] ^= self.s[2];
        self.s[0] ^= self.s[3];
        self.s[2] ^= t;
        self.s[3] = self.s[3].rotate_left(45);
        r
    }

    /// uniform in 0..n (n > 0)
    #[inline]
    pub fn below(&mut self, n: u64) -> u64 {
        debug_assert!(n > 0);
        // multiply-shift; bias < 2^-32 for the n used here, irrelevant for search
        ((self.next_u64() as u128 * n as u128) >> 64) as u64
    }

    #[inline]
    pub fn usize_below(&mut self, n: usize) -> usize {
        self.below(n as u64) as usize
    }

    /// inclusive range
    #[inline]
    pub fn range(&mut self, lo: u64, hi: u64) -> u64 {
        lo + self.below(hi - lo + 1)
    }

    /// true with probability num/den
    #[inline]
    pub fn chance(&mut self, num: u64, den: u64) -> bool {
        self.below(den) < num
    }

    pub fn pick<'a, T>(&mut self, xs: &'a [T]) -> &'a T {
        &xs[self.usize_below(xs.len())]
    }

    /// weighted pick: returns index
    pub fn weighted(&mut self, weights: &[u32]) -> usize {
        let total: u64 = weights.iter().map(|w| *w as u64).sum();
        let mut x = self.below(total.max(1));
        for (i, w) in weights.iter().enumerate() {
            if x < *w as u64 {
                return i;
            }
            x -= *w as u64;
        }
        weights.len() - 1
    }

    pub fn fill(&mut self, buf: &mut [u8]) {
        let mut i = 0;
        while i < buf.len() {
            let v = self.next_u64().to_le_bytes();
            let n = (buf.len() - i).min(8);
            buf[i..i + n].copy_from_slice(&v[..n]);
            i += n;
        }
    }

    pub fn bytes(&mut self, n: usize) -> Vec<u8> {
        let mut v = vec![0u8; n];
        self.fill(&mut v);
        v
    }
}

/// Deterministic byte pattern for message bodies: a pure function of
/// (fill id, length), so events only need to carry `(len, fill)`.
pub fn pattern(fill: u64, len: usize) -> Vec<u8> {
    let mut r = Rng::new(0x5eed_f111, fill, len as u64);
    let mut v = vec![0u8; len];
    match fill % 4 {
        0 => r.fill(&mut v),
        1 => {
            // non-zero random bytes
            r.fill(&mut v);
            for b in v.iter_mut() {
                if *b == 0 {
                    *b = 0xa5;
                }
            }
        }
        2 => v.fill(0xff),
        _ => {
            for (i, b) in v.iter_mut().enumerate() {
                *b = (i as u8).wrapping_mul(31).wrapping_add(fill as u8) | 1;
            }
        }
    }
    v
}

/// The usual length mixture (DESIGN §4): 0..=80 uniformly, block-boundary
/// set, and a tail up to `max_tail`.
pub fn draw_len(r: &mut Rng, max_tail: usize) -> usize {
    const EDGE: [usize; 9] = [127, 128, 129, 191, 192, 193, 255, 256, 257];
    match r.below(100) {
        0..=69 => r.usize_below(81),
        70..=89 => *r.pick(&EDGE),
        _ => 81 + r.usize_below(max_tail.saturating_sub(80).max(1)),
    }
}
