//! Counting global allocator: records the largest single request made while
//! armed (C04 "absurd allocation" clause). Workers are single-threaded.

use std::alloc::{GlobalAlloc, Layout, System};
use std::sync::atomic::{AtomicBool, AtomicUsize, Ordering};

pub struct Counting;

static ARMED: AtomicBool = AtomicBool::new(false);
static PEAK: AtomicUsize = AtomicUsize::new(0);
/// Requests above this size are refused (null) while armed, which Rust turns
/// into `handle_alloc_error` → abort for infallible paths; far above any
/// legitimate request of the workloads here. Keeps an absurd request from
/// taking the machine down before it is reported.
const HARD_CAP: usize = 1 << 36;

unsafe impl GlobalAlloc for Counting {
    unsafe fn alloc(&self, l: Layout) -> *mut u8 {
        if ARMED.load(Ordering::Relaxed) {
            PEAK.fetch_max(l.size(), Ordering::Relaxed);
            if l.size() > HARD_CAP {
                return std::ptr::null_mut();
            }
        }
        System.alloc(l)
    }
    unsafe fn dealloc(&self, p: *mut u8, l: Layout) {
        System.dealloc(p, l)
    }
    unsafe fn alloc_zeroed(&self, l: Layout) -> *mut u8 {
        if ARMED.load(Ordering::Relaxed) {
            PEAK.fetch_max(l.size(), Ordering::Relaxed);
            if l.size() > HARD_CAP {
                return std::ptr::null_mut();
            }
        }
        System.alloc_zeroed(l)
    }
    unsafe fn realloc(&self, p: *mut u8, l: Layout, new: usize) -> *mut u8 {
        if ARMED.load(Ordering::Relaxed) {
            PEAK.fetch_max(new, Ordering::Relaxed);
            if new > HARD_CAP {
                return std::ptr::null_mut();
            }
        }
        System.realloc(p, l, new)
    }
}

pub fn arm() {
    PEAK.store(0, Ordering::Relaxed);
    ARMED.store(true, Ordering::Relaxed);
}

pub fn disarm() -> usize {
    ARMED.store(false, Ordering::Relaxed);
    PEAK.load(Ordering::Relaxed)
}
