//! ddmin over the event list, then per-event argument shrinking. A candidate
//! is accepted iff the same (property, check id) fires.

use super::{run_replay, NoSink, Violation, World};

pub struct Minimised<W: World> {
    pub events: Vec<W::Event>,
    pub violation: Violation,
    pub candidates_tried: usize,
}

/// `test` returns the matching violation if the candidate still fails.
pub fn minimise_with<W: World>(
    events: Vec<W::Event>,
    first: Violation,
    test: &mut dyn FnMut(&[W::Event]) -> Option<Violation>,
    budget: usize,
) -> Minimised<W> {
    let mut cur = events;
    let mut viol = first;
    let mut tried = 0usize;

    // drop the tail after the violating step first (cheap, big win)
    if viol.step + 1 < cur.len() {
        let cand: Vec<W::Event> = cur[..=viol.step].to_vec();
        tried += 1;
        if let Some(v) = test(&cand) {
            cur = cand;
            viol = v;
        }
    }

    // ddmin
    let mut n = 2usize;
    while cur.len() >= 2 && tried < budget {
        let chunk = (cur.len() + n - 1) / n;
        let mut reduced = false;
        let mut start = 0;
        while start < cur.len() && tried < budget {
            let end = (start + chunk).min(cur.len());
            let mut cand = Vec::with_capacity(cur.len());
            cand.extend_from_slice(&cur[..start]);
            cand.extend_from_slice(&cur[end..]);
            tried += 1;
            if !cand.is_empty() || cur.len() == 1 {
                if let Some(v) = test(&cand) {
                    cur = cand;
                    viol = v;
                    n = (n - 1).max(2);
                    reduced = true;
                    break;
                }
            }
            start = end;
        }
        if !reduced {
            if n >= cur.len() {
                break;
            }
            n = (n * 2).min(cur.len());
        }
    }

    // single-event removal pass (ddmin at granularity 1 may have been cut by budget)
    let mut i = 0;
    while i < cur.len() && cur.len() > 1 && tried < budget {
        let mut cand = cur.clone();
        cand.remove(i);
        tried += 1;
        if let Some(v) = test(&cand) {
            cur = cand;
            viol = v;
        } else {
            i += 1;
        }
    }

    // argument shrinking to a fixed point
    let mut progress = true;
    while progress && tried < budget {
        progress = false;
        for i in 0..cur.len() {
            let cur_json = serde_json::to_string(&cur[i]).unwrap_or_default();
            for alt in W::shrink(&cur[i]) {
                if tried >= budget {
                    break;
                }
                if serde_json::to_string(&alt).unwrap_or_default() == cur_json {
                    continue;
                }
                let mut cand = cur.clone();
                cand[i] = alt;
                tried += 1;
                if let Some(v) = test(&cand) {
                    cur = cand;
                    viol = v;
                    progress = true;
                    break;
                }
            }
        }
    }

    Minimised { events: cur, violation: viol, candidates_tried: tried }
}

pub fn same_class(a: &Violation, b: &Violation) -> bool {
    a.property == b.property && a.check == b.check
}

/// In-process test function (non-crashing violation classes).
pub fn in_process_test<W: World>(cfg: &W::Config, target: &Violation) -> impl FnMut(&[W::Event]) -> Option<Violation> {
    let cfg = cfg.clone();
    let target = target.clone();
    move |events: &[W::Event]| {
        let out = run_replay::<W>(&cfg, events, false, &mut NoSink, false);
        out.violations.into_iter().find(|v| same_class(v, &target))
    }
}
