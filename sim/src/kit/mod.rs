//! simkit: the parts every world shares — PRNG, run record, digest, violations,
//! probes, generation / replay drivers.

pub mod alloc;
pub mod known;
pub mod minimise;
pub mod orch;
pub mod prng;

use prng::{fnv1a, Rng};
use serde::de::DeserializeOwned;
use serde::{Deserialize, Serialize};
use std::cell::RefCell;
use std::collections::BTreeMap;

pub const DEFAULT_SEED: u64 = 20260927;
pub const MAX_EVENTS_PER_RUN: usize = 400;

#[derive(Clone, Copy, Debug, PartialEq, Eq, Serialize, Deserialize)]
#[serde(rename_all = "lowercase")]
pub enum Tier {
    Quick,
    Thorough,
}

impl Tier {
    pub fn parse(s: &str) -> Option<Tier> {
        match s {
            "quick" => Some(Tier::Quick),
            "thorough" => Some(Tier::Thorough),
            _ => None,
        }
    }
    pub fn as_str(&self) -> &'static str {
        match self {
            Tier::Quick => "quick",
            Tier::Thorough => "thorough",
        }
    }
}

pub type Site = BTreeMap<String, String>;

pub fn site(pairs: &[(&str, &str)]) -> Site {
    pairs.iter().map(|(k, v)| (k.to_string(), v.to_string())).collect()
}

#[derive(Clone, Debug, Serialize, Deserialize, PartialEq)]
pub struct Violation {
    pub property: String,
    pub check: String,
    pub site: Site,
    pub step: usize,
    pub detail: String,
}

impl Violation {
    pub fn signature(&self) -> String {
        let mut s = format!("{}|{}", self.property, self.check);
        for (k, v) in &self.site {
            s.push_str(&format!("|{}={}", k, v));
        }
        s
    }
}

/// Everything a run reports. `digest` covers every (event, outcome) note.
pub struct Out {
    pub prop: String,
    pub digest: u64,
    pub trace: Option<Vec<String>>,
    pub violations: Vec<Violation>,
    pub probes: BTreeMap<String, u64>,
    pub faults: BTreeMap<String, u64>,
    pub cells: Vec<u64>,
    pub step: usize,
    pub shape: u64,
    pub ops: u64,
    pub faults_fired: u64,
    pub harness_errors: Vec<String>,
}

impl Out {
    pub fn new(prop: &str, trace: bool) -> Self {
        Out {
            prop: prop.to_string(),
            digest: 0xcbf29ce484222325,
            trace: if trace { Some(Vec::new()) } else { None },
            violations: Vec::new(),
            probes: BTreeMap::new(),
            faults: BTreeMap::new(),
            cells: Vec::new(),
            step: 0,
            shape: 0xcbf29ce484222325,
            ops: 0,
            faults_fired: 0,
            harness_errors: Vec::new(),
        }
    }

    /// Record an (event, outcome) line: goes into the run digest (and the
    /// trace when enabled). Never draws randomness, never reads a clock.
    pub fn note(&mut self, s: &str) {
        for b in s.as_bytes() {
            self.digest ^= *b as u64;
            self.digest = self.digest.wrapping_mul(0x100000001b3);
        }
        self.digest ^= 0x0a;
        self.digest = self.digest.wrapping_mul(0x100000001b3);
        if let Some(t) = self.trace.as_mut() {
            t.push(format!("[{}] {}", self.step, s));
        }
    }

    pub fn note_bytes(&mut self, label: &str, b: &[u8]) {
        let h = fnv1a(b);
        self.note(&format!("{} len={} h={:016x}", label, b.len(), h));
    }

    pub fn probe(&mut self, name: &str) {
        *self.probes.entry(name.to_string()).or_insert(0) += 1;
    }

    pub fn probe_n(&mut self, name: &str, n: u64) {
        *self.probes.entry(name.to_string()).or_insert(0) += n;
    }

    /// A fault that actually fired (not merely configured).
    pub fn fault(&mut self, kind: &str) {
        *self.faults.entry(kind.to_string()).or_insert(0) += 1;
        self.faults_fired += 1;
    }

    /// Contribute to the run's *shape* (config + event kinds + bucketed args).
    pub fn shape(&mut self, s: &str) {
        for b in s.as_bytes() {
            self.shape ^= *b as u64;
            self.shape = self.shape.wrapping_mul(0x100000001b3);
        }
        self.shape ^= 0xff;
        self.shape = self.shape.wrapping_mul(0x100000001b3);
    }

    /// A coverage cell (state-coverage measure); counted distinct.
    pub fn cell(&mut self, s: &str) {
        self.cells.push(fnv1a(s.as_bytes()));
    }

    pub fn op(&mut self) {
        self.ops += 1;
    }

    /// Report a violation of `property`. Violations of other properties than
    /// the one being checked are not this check's business and are dropped.
    pub fn violate(&mut self, property: &str, check: &str, site: Site, detail: String) {
        if property != self.prop {
            return;
        }
        self.violations.push(Violation {
            property: property.to_string(),
            check: check.to_string(),
            site,
            step: self.step,
            detail,
        });
    }

    pub fn harness_error(&mut self, s: String) {
        self.harness_errors.push(s);
    }
}

/// A simulated world: a system under test + reference model + event policy.
pub trait World: Sized {
    const NAME: &'static str;
    type Config: Serialize + DeserializeOwned + Clone + std::fmt::Debug + Send + Sync;
    type Event: Serialize + DeserializeOwned + Clone + std::fmt::Debug + Send + Sync;

    /// Swarm choices, drawn first.
    fn gen_config(rng: &mut Rng, prop: &str, tier: Tier, run: u64) -> Self::Config;
    fn new(cfg: &Self::Config) -> Self;
    /// Online policy: may look at the model state, draws from the PRNG.
    fn next_event(&mut self, rng: &mut Rng) -> Option<Self::Event>;
    /// Pure executor step: never touches the run PRNG.
    fn step(&mut self, ev: &Self::Event, out: &mut Out);
    fn finish(&mut self, _out: &mut Out) {}
    /// Simpler variants of one event (argument shrinking).
    fn shrink(_ev: &Self::Event) -> Vec<Self::Event> {
        Vec::new()
    }
    /// Site attribution for a worker that died while `ev` was in flight.
    fn crash_site(_cfg: &Self::Config, _ev: &Self::Event) -> Site {
        Site::new()
    }
    /// The property a config belongs to.
    fn prop_of(cfg: &Self::Config) -> String;
    /// Which PRNG stream index run `run` draws from (C19 maps the 48 fault
    /// plans of one base walk onto the same stream).
    fn rng_index(_prop: &str, run: u64) -> u64 {
        run
    }
}

#[derive(Clone, Debug, Serialize, Deserialize)]
pub struct ReplayFile {
    pub world: String,
    pub property: String,
    pub seed: u64,
    pub run: u64,
    pub config: serde_json::Value,
    pub events: Vec<serde_json::Value>,
    pub violation: Option<Violation>,
    pub digest: Option<String>,
    #[serde(default)]
    pub note: String,
    /// which build of the simulator produced it: "s", "n" or "nsimd"
    #[serde(default = "default_build")]
    pub build: String,
}

fn default_build() -> String {
    "s".into()
}

pub fn build_tag() -> &'static str {
    if cfg!(feature = "simd") {
        "nsimd"
    } else if cfg!(feature = "nightly") {
        "n"
    } else {
        "s"
    }
}

thread_local! {
    pub static LAST_PANIC: RefCell<Option<(String, String)>> = RefCell::new(None);
}

pub fn install_panic_hook() {
    let verbose = std::env::var("VERIF_VERBOSE").is_ok();
    std::panic::set_hook(Box::new(move |info| {
        let loc = info
            .location()
            .map(|l| {
                let f = l.file();
                // make the location independent of where the repo lives
                let f = f.rsplit_once("/src/").map(|(_, b)| format!("src/{}", b)).unwrap_or(f.to_string());
                format!("{}:{}", f, l.line())
            })
            .unwrap_or_else(|| "?".into());
        let msg = if let Some(s) = info.payload().downcast_ref::<&str>() {
            s.to_string()
        } else if let Some(s) = info.payload().downcast_ref::<String>() {
            s.clone()
        } else {
            "<non-string panic>".into()
        };
        if verbose {
            use std::io::Write;
            let _ = writeln!(std::io::stderr(), "[panic] {} at {}", msg, loc);
        }
        LAST_PANIC.with(|p| *p.borrow_mut() = Some((loc, msg)));
    }));
}

pub fn take_last_panic() -> (String, String) {
    LAST_PANIC
        .with(|p| p.borrow_mut().take())
        .unwrap_or(("?".into(), "?".into()))
}

/// Run a closure, catching unwinds. Returns Err((location, message)).
pub fn guarded<T>(f: impl FnOnce() -> T) -> Result<T, (String, String)> {
    match std::panic::catch_unwind(std::panic::AssertUnwindSafe(f)) {
        Ok(v) => Ok(v),
        Err(_) => Err(take_last_panic()),
    }
}

pub struct RunRecord<W: World> {
    pub config: W::Config,
    pub events: Vec<W::Event>,
    pub out: Out,
}

/// Streaming sink used by the `genexec`/`exec` child modes so that the parent
/// knows which event was in flight if the child dies.
pub trait Sink: Send {
    fn config(&mut self, _json: &str) {}
    fn before_event(&mut self, _idx: usize, _json: &str) {}
}
pub struct NoSink;
impl Sink for NoSink {}

/// Every run executes in a thread of its own (the caller waits for it; nothing else runs), so
/// that per-thread state the library keeps — a thread-local cache, pool or scratch buffer —
/// starts empty in every run: a run is then a function of its seed and the code alone, in a
/// worker that has executed thousands of runs before exactly as in the fresh process that
/// replays it.
fn in_run_thread<T: Send, F: FnOnce() -> Result<T, (String, String)> + Send>(f: F) -> Result<T, (String, String)> {
    // SIGALRM (the RNG world's signal storm) must land in the run thread: the waiting thread
    // blocks it, run threads inherit the mask and unblock it for the duration of a storm
    static BLOCK_ALRM: std::sync::Once = std::sync::Once::new();
    BLOCK_ALRM.call_once(|| unsafe {
        let mut set: libc::sigset_t = std::mem::zeroed();
        libc::sigemptyset(&mut set);
        libc::sigaddset(&mut set, libc::SIGALRM);
        libc::pthread_sigmask(libc::SIG_BLOCK, &set, std::ptr::null_mut());
    });
    std::thread::scope(|s| {
        match std::thread::Builder::new().stack_size(16 << 20).spawn_scoped(s, f) {
            Ok(h) => h.join().unwrap_or_else(|_| Err(("?".to_string(), "the run thread died".to_string()))),
            Err(e) => Err(("?".to_string(), format!("harness: cannot start the run thread: {}", e))),
        }
    })
}

pub fn run_generated<W: World>(seed: u64, run: u64, prop: &str, tier: Tier, trace: bool, sink: &mut dyn Sink, stream: bool) -> RunRecord<W> {
    let mut rng = Rng::from_label(seed, &format!("{}/{}", W::NAME, prop), W::rng_index(prop, run));
    let cfg = W::gen_config(&mut rng, prop, tier, run);
    if stream {
        sink.config(&serde_json::to_string(&cfg).unwrap());
    }
    let mut out = Out::new(prop, trace);
    let mut events = Vec::new();
    let r = in_run_thread(|| {
        guarded(|| {
            let mut w = W::new(&cfg);
            while let Some(ev) = w.next_event(&mut rng) {
                out.step = events.len();
                if stream {
                    sink.before_event(events.len(), &serde_json::to_string(&ev).unwrap());
                }
                w.step(&ev, &mut out);
                events.push(ev);
                if events.len() >= MAX_EVENTS_PER_RUN {
                    break;
                }
            }
            out.step = events.len();
            w.finish(&mut out);
        })
    });
    if let Err((loc, msg)) = r {
        out.harness_error(format!("unguarded panic in world {} run {}: {} at {}", W::NAME, run, msg, loc));
    }
    RunRecord { config: cfg, events, out }
}

pub fn run_replay<W: World>(cfg: &W::Config, events: &[W::Event], trace: bool, sink: &mut dyn Sink, stream: bool) -> Out {
    let prop = W::prop_of(cfg);
    let mut out = Out::new(&prop, trace);
    let r = in_run_thread(|| {
        guarded(|| {
            let mut w = W::new(cfg);
            for (i, ev) in events.iter().enumerate() {
                out.step = i;
                if stream {
                    sink.before_event(i, "");
                }
                w.step(ev, &mut out);
            }
            out.step = events.len();
            w.finish(&mut out);
        })
    });
    if let Err((loc, msg)) = r {
        out.harness_error(format!("unguarded panic in world {} replay: {} at {}", W::NAME, msg, loc));
    }
    out
}

pub fn hex(b: &[u8]) -> String {
    let mut s = String::with_capacity(b.len() * 2);
    for x in b {
        s.push_str(&format!("{:02x}", x));
    }
    s
}

/// Run `f` in a forked child (the workers are single-threaded, so forking is safe) and return
/// the bytes it produced. `Err` describes how the child ended if it did not return: killed by
/// a signal, or unwound.
pub fn fork_run<F: FnOnce() -> Vec<u8>>(f: F) -> Result<Vec<u8>, String> {
    unsafe {
        let mut fds = [0 as libc::c_int; 2];
        if libc::pipe(fds.as_mut_ptr()) != 0 {
            return Err("harness: pipe failed".into());
        }
        let pid = libc::fork();
        if pid < 0 {
            libc::close(fds[0]);
            libc::close(fds[1]);
            return Err("harness: fork failed".into());
        }
        if pid == 0 {
            libc::close(fds[0]);
            let msg = match std::panic::catch_unwind(std::panic::AssertUnwindSafe(f)) {
                Ok(v) => {
                    let mut m = vec![b'R'];
                    m.extend_from_slice(&v);
                    m
                }
                Err(_) => vec![b'P'],
            };
            let mut off = 0;
            while off < msg.len() {
                let n = libc::write(fds[1], msg[off..].as_ptr() as *const libc::c_void, msg.len() - off);
                if n <= 0 {
                    break;
                }
                off += n as usize;
            }
            libc::_exit(0);
        }
        libc::close(fds[1]);
        let mut buf: Vec<u8> = Vec::new();
        let mut tmp = [0u8; 4096];
        loop {
            let n = libc::read(fds[0], tmp.as_mut_ptr() as *mut libc::c_void, tmp.len());
            if n <= 0 {
                break;
            }
            buf.extend_from_slice(&tmp[..n as usize]);
        }
        libc::close(fds[0]);
        let mut status: libc::c_int = 0;
        libc::waitpid(pid, &mut status, 0);
        if libc::WIFSIGNALED(status) {
            return Err(format!("killed by signal {}", libc::WTERMSIG(status)));
        }
        match buf.first() {
            Some(b'R') => Ok(buf[1..].to_vec()),
            Some(b'P') => Err("unwound".into()),
            _ => Err(format!("ended with status {} without reporting", libc::WEXITSTATUS(status))),
        }
    }
}
