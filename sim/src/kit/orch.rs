//! Orchestrator: forks worker processes, merges their results, handles dead
//! workers, minimises and re-executes violations in fresh processes, writes
//! evidence, prints the verdict lines.

use super::known::KnownFindings;
use super::minimise::{in_process_test, minimise_with, same_class};
use super::prng::fnv1a;
use super::*;
use std::collections::{BTreeMap, HashSet};
use std::io::{BufRead, Write};
use std::os::unix::fs::FileExt;
use std::os::unix::process::ExitStatusExt;
use std::process::{Command, Stdio};

pub fn verif_root() -> String {
    std::env::var("VERIF_ROOT").unwrap_or_else(|_| "/verif".to_string())
}

/// What a dead worker's status means. Exit status 86 is the memory seam ending a library
/// call that had made more than 100000 intercepted system calls (bounded liveness).
pub fn describe_death(how: &str) -> String {
    if how.contains("Some(86)") {
        format!("worker process ended by the simulator ({}): the call in flight made more than 100000 lock/protect/advise requests without returning — no progress", how)
    } else {
        format!("worker process died ({}) while this event was in flight", how)
    }
}

pub fn abort_check(prop: &str) -> Option<&'static str> {
    match prop {
        "C04" => Some("c04.abort"),
        "C14" => Some("c14.crash"),
        "C19" => Some("c19.abort"),
        _ => None,
    }
}

#[derive(Clone, Debug, Serialize, Deserialize, Default)]
pub struct SigCount {
    pub count: u64,
}

#[derive(Clone, Debug, Serialize, Deserialize)]
pub struct ViolationRun {
    pub run: u64,
    pub config: serde_json::Value,
    pub events: Vec<serde_json::Value>,
    pub violation: Violation,
}

#[derive(Clone, Debug, Serialize, Deserialize, Default)]
pub struct WorkerResult {
    pub evals: u64,
    pub events: u64,
    pub ops: u64,
    pub nontrivial_runs: u64,
    pub faults: BTreeMap<String, u64>,
    pub probes: BTreeMap<String, u64>,
    pub violations: Vec<ViolationRun>,
    pub violation_counts: BTreeMap<String, u64>,
    pub samples: Vec<serde_json::Value>,
    pub harness_errors: Vec<String>,
}

pub struct WorkerArgs {
    pub prop: String,
    pub tier: Tier,
    pub seed: u64,
    pub runs: u64,
    pub stride: u64,
    pub offset: u64,
    pub prefix: String,
    pub skip: Vec<u64>,
    pub samples: usize,
}

fn write_u64s(path: &str, xs: &[u64]) {
    let mut buf = Vec::with_capacity(xs.len() * 8);
    for x in xs {
        buf.extend_from_slice(&x.to_le_bytes());
    }
    std::fs::write(path, buf).expect("write bin");
}

fn read_u64s(path: &str) -> Vec<u64> {
    let b = std::fs::read(path).unwrap_or_default();
    b.chunks_exact(8).map(|c| u64::from_le_bytes(c.try_into().unwrap())).collect()
}

pub fn worker<W: World>(a: WorkerArgs) -> i32 {
    let cur = std::fs::OpenOptions::new()
        .create(true)
        .write(true)
        .truncate(true)
        .open(format!("{}.cur", a.prefix))
        .expect("cur file");
    let mut res = WorkerResult::default();
    let mut shapes: HashSet<u64> = HashSet::new();
    let mut cells: HashSet<u64> = HashSet::new();
    let mut digests: Vec<u64> = Vec::new();
    let mut best: BTreeMap<String, usize> = BTreeMap::new(); // signature -> index in res.violations
    let mut run = a.offset;
    while run < a.runs {
        if a.skip.contains(&run) {
            digests.push(0);
            run += a.stride;
            continue;
        }
        cur.write_all_at(&(run + 1).to_le_bytes(), 0).ok();
        let rec = run_generated::<W>(a.seed, run, &a.prop, a.tier, false, &mut NoSink, false);
        let out = rec.out;
        res.evals += 1;
        res.events += rec.events.len() as u64;
        res.ops += out.ops;
        if out.faults_fired > 0 || out.ops >= 3 {
            res.nontrivial_runs += 1;
            shapes.insert(out.shape);
        }
        for (k, v) in &out.faults {
            *res.faults.entry(k.clone()).or_insert(0) += v;
        }
        for (k, v) in &out.probes {
            *res.probes.entry(k.clone()).or_insert(0) += v;
        }
        for c in &out.cells {
            cells.insert(*c);
        }
        digests.push(out.digest);
        for e in out.harness_errors {
            if res.harness_errors.len() < 20 {
                res.harness_errors.push(e);
            }
        }
        if !out.violations.is_empty() {
            let mut seen_in_run: HashSet<String> = HashSet::new();
            for v in out.violations {
                let sig = v.signature();
                if !seen_in_run.insert(sig.clone()) {
                    continue;
                }
                *res.violation_counts.entry(sig.clone()).or_insert(0) += 1;
                let vr = || ViolationRun {
                    run,
                    config: serde_json::to_value(&rec.config).unwrap(),
                    events: rec.events.iter().map(|e| serde_json::to_value(e).unwrap()).collect(),
                    violation: v.clone(),
                };
                match best.get(&sig) {
                    Some(&i) => {
                        if res.violations[i].events.len() > rec.events.len() {
                            res.violations[i] = vr();
                        }
                    }
                    None => {
                        if res.violations.len() < 40 {
                            best.insert(sig, res.violations.len());
                            res.violations.push(vr());
                        }
                    }
                }
            }
        }
        if res.samples.len() < a.samples {
            res.samples.push(serde_json::json!({
                "world": W::NAME, "run": run,
                "config": serde_json::to_value(&rec.config).unwrap(),
                "events": rec.events.iter().map(|e| serde_json::to_value(e).unwrap()).collect::<Vec<_>>(),
            }));
        }
        run += a.stride;
    }
    cur.write_all_at(&0u64.to_le_bytes(), 0).ok();
    let mut sh: Vec<u64> = shapes.into_iter().collect();
    sh.sort_unstable();
    write_u64s(&format!("{}.shapes", a.prefix), &sh);
    let mut ce: Vec<u64> = cells.into_iter().collect();
    ce.sort_unstable();
    write_u64s(&format!("{}.cells", a.prefix), &ce);
    write_u64s(&format!("{}.digests", a.prefix), &digests);
    std::fs::write(format!("{}.json", a.prefix), serde_json::to_vec(&res).unwrap()).expect("write result");
    0
}

/// Child mode: generate run `run` online, streaming config and events to
/// stdout *before* each is executed.
struct StdoutSink;
impl Sink for StdoutSink {
    fn config(&mut self, json: &str) {
        let mut o = std::io::stdout().lock();
        let _ = writeln!(o, "CONFIG {}", json);
        let _ = o.flush();
    }
    fn before_event(&mut self, idx: usize, json: &str) {
        let mut o = std::io::stdout().lock();
        let _ = writeln!(o, "EVENT {} {}", idx, json);
        let _ = o.flush();
    }
}

pub fn genexec<W: World>(seed: u64, run: u64, prop: &str, tier: Tier) -> i32 {
    let rec = run_generated::<W>(seed, run, prop, tier, false, &mut StdoutSink, true);
    let mut o = std::io::stdout().lock();
    let _ = writeln!(
        o,
        "END {}",
        serde_json::json!({"violations": rec.out.violations, "digest": format!("{:016x}", rec.out.digest), "harness_errors": rec.out.harness_errors})
    );
    0
}

pub fn exec_file<W: World>(rf: &ReplayFile, trace: bool) -> i32 {
    let cfg: W::Config = match serde_json::from_value(rf.config.clone()) {
        Ok(c) => c,
        Err(e) => {
            eprintln!("bad config in replay file: {}", e);
            return 2;
        }
    };
    let mut events = Vec::new();
    for e in &rf.events {
        match serde_json::from_value::<W::Event>(e.clone()) {
            Ok(ev) => events.push(ev),
            Err(e) => {
                eprintln!("bad event in replay file: {}", e);
                return 2;
            }
        }
    }
    let out = run_replay::<W>(&cfg, &events, trace, &mut StdoutSink, true);
    let mut o = std::io::stdout().lock();
    if let Some(t) = &out.trace {
        for l in t {
            let _ = writeln!(o, "TRACE {}", l);
        }
    }
    let _ = writeln!(
        o,
        "END {}",
        serde_json::json!({"violations": out.violations, "digest": format!("{:016x}", out.digest), "harness_errors": out.harness_errors})
    );
    0
}

#[derive(Debug, Default)]
pub struct ChildOutcome {
    pub config: Option<serde_json::Value>,
    pub events: Vec<serde_json::Value>,
    pub last_step: Option<usize>,
    pub ended: bool,
    pub died: Option<String>,
    pub violations: Vec<Violation>,
    pub digest: Option<String>,
    pub harness_errors: Vec<String>,
    pub trace: Vec<String>,
}

fn self_exe() -> std::path::PathBuf {
    std::env::current_exe().expect("current_exe")
}

pub fn run_child(args: &[String]) -> ChildOutcome {
    let mut co = ChildOutcome::default();
    let mut child = match Command::new(self_exe()).args(args).stdout(Stdio::piped()).stderr(Stdio::null()).spawn() {
        Ok(c) => c,
        Err(e) => {
            co.harness_errors.push(format!("spawn failed: {}", e));
            return co;
        }
    };
    let stdout = child.stdout.take().unwrap();
    let rd = std::io::BufReader::new(stdout);
    for line in rd.lines() {
        let line = match line {
            Ok(l) => l,
            Err(_) => break,
        };
        if let Some(r) = line.strip_prefix("CONFIG ") {
            co.config = serde_json::from_str(r).ok();
        } else if let Some(r) = line.strip_prefix("EVENT ") {
            let (idx, json) = r.split_once(' ').unwrap_or((r, ""));
            co.last_step = idx.parse().ok();
            if !json.is_empty() {
                if let Ok(v) = serde_json::from_str(json) {
                    co.events.push(v);
                }
            }
        } else if let Some(r) = line.strip_prefix("TRACE ") {
            co.trace.push(r.to_string());
        } else if let Some(r) = line.strip_prefix("END ") {
            co.ended = true;
            if let Ok(v) = serde_json::from_str::<serde_json::Value>(r) {
                co.violations = serde_json::from_value(v["violations"].clone()).unwrap_or_default();
                co.digest = v["digest"].as_str().map(|s| s.to_string());
                co.harness_errors = serde_json::from_value(v["harness_errors"].clone()).unwrap_or_default();
            }
        }
    }
    let st = child.wait();
    match st {
        Ok(s) => {
            if !co.ended || !s.success() {
                let how = if let Some(sig) = s.signal() { format!("signal {}", sig) } else { format!("exit status {:?}", s.code()) };
                if !co.ended {
                    co.died = Some(how);
                }
            }
        }
        Err(e) => co.harness_errors.push(format!("wait: {}", e)),
    }
    co
}

/// Execute a replay file in a fresh process; a dead child becomes the
/// property's abort-class violation.
pub fn exec_in_child<W: World>(rf: &ReplayFile, tmp_path: &str, trace: bool) -> (Vec<Violation>, ChildOutcome) {
    std::fs::write(tmp_path, serde_json::to_vec_pretty(rf).unwrap()).expect("write tmp replay");
    let mut args = vec!["exec".to_string(), "--file".to_string(), tmp_path.to_string()];
    if trace {
        args.push("--trace".into());
    }
    let co = run_child(&args);
    let mut v = co.violations.clone();
    if let Some(how) = &co.died {
        if let Some(chk) = abort_check(&rf.property) {
            let step = co.last_step.unwrap_or(0);
            let site = match (serde_json::from_value::<W::Config>(rf.config.clone()), rf.events.get(step).map(|e| serde_json::from_value::<W::Event>(e.clone()))) {
                (Ok(c), Some(Ok(e))) => W::crash_site(&c, &e),
                _ => Site::new(),
            };
            v.push(Violation { property: rf.property.clone(), check: chk.to_string(), site, step, detail: describe_death(how) });
        }
    }
    (v, co)
}

#[derive(Clone, Debug, Serialize, Deserialize)]
pub struct ViolationReport {
    pub violation: Violation,
    pub count: u64,
    pub replay: String,
    pub reproduced: bool,
    pub known: Option<String>,
    pub known_what: Option<String>,
    pub events_before: usize,
    pub events_after: usize,
    pub candidates_tried: usize,
}

#[derive(Clone, Debug, Serialize, Deserialize, Default)]
pub struct LegResult {
    pub leg: String,
    pub world: String,
    pub build: String,
    pub runs_planned: u64,
    pub evals: u64,
    pub events: u64,
    pub ops: u64,
    pub nontrivial_runs: u64,
    pub shapes_distinct: u64,
    pub cells_distinct: u64,
    pub faults: BTreeMap<String, u64>,
    pub probes: BTreeMap<String, u64>,
    pub batch_digest: String,
    pub violations: Vec<ViolationReport>,
    pub violation_signatures: u64,
    pub samples: Vec<serde_json::Value>,
    pub worker_crashes: u64,
    pub determinism_rechecked: u64,
    pub determinism_ok: bool,
    pub harness_errors: Vec<String>,
    pub wall_s: f64,
    pub required_probes: Vec<String>,
    pub workers: u64,
}

pub struct Leg {
    pub name: String,
    pub world: &'static str,
    pub runs: u64,
    pub required_probes: Vec<&'static str>,
}

pub struct CheckArgs {
    pub prop: String,
    pub tier: Tier,
    pub seed: u64,
    pub workers: u64,
    pub build: String,
    pub workdir: String,
    pub runs_override: Option<u64>,
}

fn spawn_worker(world: &str, a: &CheckArgs, runs: u64, stride: u64, offset: u64, prefix: &str, skip: &[u64], samples: usize) -> std::process::Child {
    let skip_s = skip.iter().map(|x| x.to_string()).collect::<Vec<_>>().join(",");
    Command::new(self_exe())
        .args([
            "worker", "--world", world, "--prop", &a.prop, "--tier", a.tier.as_str(), "--seed", &a.seed.to_string(), "--runs", &runs.to_string(), "--stride", &stride.to_string(), "--offset",
            &offset.to_string(), "--prefix", prefix, "--skip", &skip_s, "--samples", &samples.to_string(),
        ])
        .stdout(Stdio::null())
        // dryoc reports failed munlock/mprotect calls on drop with eprintln!; under injected
        // refusals that is expected chatter, not diagnostics
        .stderr(if std::env::var("VERIF_VERBOSE").is_ok() { Stdio::inherit() } else { Stdio::null() })
        .spawn()
        .expect("spawn worker")
}

pub fn run_leg<W: World>(leg: &Leg, a: &CheckArgs) -> LegResult {
    let t0 = std::time::Instant::now();
    let mut lr = LegResult { leg: leg.name.clone(), world: W::NAME.to_string(), build: a.build.clone(), runs_planned: leg.runs, determinism_ok: true, workers: a.workers, ..Default::default() };
    lr.required_probes = leg.required_probes.iter().map(|s| s.to_string()).collect();
    let dir = format!("{}/{}", a.workdir, leg.name);
    let _ = std::fs::remove_dir_all(&dir);
    std::fs::create_dir_all(&dir).expect("mkdir workdir");
    let runs = leg.runs;
    let w = a.workers.min(runs.max(1));
    let mut skips: Vec<Vec<u64>> = vec![Vec::new(); w as usize];
    let mut crash_runs: Vec<ViolationRun> = Vec::new();
    let mut pending: Vec<u64> = (0..w).collect();
    let mut round = 0;
    while !pending.is_empty() {
        round += 1;
        let mut children = Vec::new();
        for &k in &pending {
            let prefix = format!("{}/w{}", dir, k);
            children.push((k, prefix.clone(), spawn_worker(W::NAME, a, runs, w, k, &prefix, &skips[k as usize], if k == 0 { 3 } else { 0 })));
        }
        let mut again = Vec::new();
        for (k, prefix, mut ch) in children {
            let st = ch.wait().expect("wait worker");
            if st.success() {
                continue;
            }
            // dead worker: which run was in flight?
            lr.worker_crashes += 1;
            let curv = read_u64s(&format!("{}.cur", prefix));
            let run = match curv.first() {
                Some(&x) if x > 0 => x - 1,
                _ => {
                    lr.harness_errors.push(format!("worker {} died ({:?}) outside any run", k, st));
                    continue;
                }
            };
            // regenerate that run in a child that streams its events
            let co = run_child(&[
                "genexec".into(), "--world".into(), W::NAME.into(), "--prop".into(), a.prop.clone(), "--tier".into(), a.tier.as_str().into(), "--seed".into(), a.seed.to_string(), "--run".into(), run.to_string(),
            ]);
            match (&co.died, abort_check(&a.prop)) {
                (Some(how), Some(chk)) => {
                    let step = co.last_step.unwrap_or(0);
                    let site = match (co.config.clone().map(serde_json::from_value::<W::Config>), co.events.get(step).cloned().map(serde_json::from_value::<W::Event>)) {
                        (Some(Ok(c)), Some(Ok(e))) => W::crash_site(&c, &e),
                        _ => Site::new(),
                    };
                    crash_runs.push(ViolationRun {
                        run,
                        config: co.config.clone().unwrap_or(serde_json::Value::Null),
                        events: co.events.clone(),
                        violation: Violation { property: a.prop.clone(), check: chk.to_string(), site, step, detail: describe_death(how) },
                    });
                }
                (Some(how), None) => lr.harness_errors.push(format!("worker died ({}) in run {} of world {}; crash-freedom is judged by C04/C14/C19, not {}", how, run, W::NAME, a.prop)),
                (None, _) => lr.harness_errors.push(format!("worker {} died in run {} but the run does not die when regenerated (non-deterministic crash?)", k, run)),
            }
            skips[k as usize].push(run);
            if skips[k as usize].len() <= 6 && round < 8 {
                again.push(k);
            } else {
                lr.harness_errors.push(format!("worker {} keeps dying; giving up on its share", k));
            }
        }
        pending = again;
    }

    // merge
    let mut shapes: HashSet<u64> = HashSet::new();
    let mut cells: HashSet<u64> = HashSet::new();
    let mut digests: Vec<Vec<u64>> = Vec::new();
    let mut vruns: Vec<ViolationRun> = crash_runs;
    let mut vcounts: BTreeMap<String, u64> = BTreeMap::new();
    for vr in &vruns {
        *vcounts.entry(vr.violation.signature()).or_insert(0) += 1;
    }
    for k in 0..w {
        let prefix = format!("{}/w{}", dir, k);
        let res: WorkerResult = match std::fs::read(format!("{}.json", prefix)).ok().and_then(|b| serde_json::from_slice(&b).ok()) {
            Some(r) => r,
            None => {
                lr.harness_errors.push(format!("worker {} left no result", k));
                digests.push(Vec::new());
                continue;
            }
        };
        lr.evals += res.evals;
        lr.events += res.events;
        lr.ops += res.ops;
        lr.nontrivial_runs += res.nontrivial_runs;
        for (kk, v) in res.faults {
            *lr.faults.entry(kk).or_insert(0) += v;
        }
        for (kk, v) in res.probes {
            *lr.probes.entry(kk).or_insert(0) += v;
        }
        for (kk, v) in res.violation_counts {
            *vcounts.entry(kk).or_insert(0) += v;
        }
        vruns.extend(res.violations);
        lr.samples.extend(res.samples);
        lr.harness_errors.extend(res.harness_errors);
        for s in read_u64s(&format!("{}.shapes", prefix)) {
            shapes.insert(s);
        }
        for s in read_u64s(&format!("{}.cells", prefix)) {
            cells.insert(s);
        }
        digests.push(read_u64s(&format!("{}.digests", prefix)));
    }
    lr.shapes_distinct = shapes.len() as u64;
    lr.cells_distinct = cells.len() as u64;
    // batch digest in run-index order => independent of W
    let digest_of = |run: u64| -> Option<u64> { digests.get((run % w) as usize).and_then(|d| d.get((run / w) as usize)).copied() };
    let mut bd = Vec::with_capacity(runs as usize * 8);
    for run in 0..runs {
        bd.extend_from_slice(&digest_of(run).unwrap_or(0).to_le_bytes());
    }
    lr.batch_digest = format!("{:016x}", fnv1a(&bd));

    // determinism re-check: a different process, a different worker count
    let recheck = 32.min(runs);
    if recheck > 0 && lr.worker_crashes == 0 {
        let prefix = format!("{}/recheck", dir);
        let mut ch = spawn_worker(W::NAME, a, recheck, 1, 0, &prefix, &[], 0);
        let st = ch.wait().expect("wait recheck");
        if st.success() {
            let d2 = read_u64s(&format!("{}.digests", prefix));
            for run in 0..recheck {
                if Some(d2[run as usize]) != digest_of(run) {
                    lr.determinism_ok = false;
                    lr.harness_errors.push(format!("determinism self-check: run {} digest {:016x} vs {:016x}", run, d2[run as usize], digest_of(run).unwrap_or(0)));
                    break;
                }
            }
            lr.determinism_rechecked = recheck;
        } else {
            lr.harness_errors.push("determinism re-check worker failed".into());
        }
    }

    // violations: one report per signature (shortest run), minimise, re-execute
    let known = KnownFindings::load(&format!("{}/known_findings.json", verif_root()));
    let known = match known {
        Ok(k) => k,
        Err(e) => {
            lr.harness_errors.push(e);
            KnownFindings::default()
        }
    };
    let mut by_sig: BTreeMap<String, ViolationRun> = BTreeMap::new();
    for vr in vruns {
        let sig = vr.violation.signature();
        match by_sig.get(&sig) {
            Some(old) if old.events.len() <= vr.events.len() => {}
            _ => {
                by_sig.insert(sig, vr);
            }
        }
    }
    lr.violation_signatures = by_sig.len() as u64;
    let replay_dir = format!("{}/replays", verif_root());
    let _ = std::fs::create_dir_all(&replay_dir);
    // Report a diverse subset: within a (property, check) class prefer
    // signatures whose primary site field (panic site / receiver / kind / path)
    // has not been reported yet; at most 6 per class and 16 per leg.
    let primary = |v: &Violation| -> String {
        for k in ["panic_site", "path", "event", "kind", "receiver", "entry", "primitive"] {
            if let Some(x) = v.site.get(k) {
                return format!("{}={}", k, x);
            }
        }
        String::new()
    };
    let mut order: Vec<&String> = Vec::new();
    {
        let mut seen: HashSet<String> = HashSet::new();
        let mut rest: Vec<&String> = Vec::new();
        for (sig, vr) in by_sig.iter() {
            let key = format!("{}|{}|{}", vr.violation.property, vr.violation.check, primary(&vr.violation));
            if seen.insert(key) {
                order.push(sig);
            } else {
                rest.push(sig);
            }
        }
        order.extend(rest);
    }
    let mut reported_classes: BTreeMap<String, u32> = BTreeMap::new();
    for sig in order {
        let vr = &by_sig[sig];
        let class = format!("{}|{}", vr.violation.property, vr.violation.check);
        let n = reported_classes.entry(class).or_insert(0);
        if *n >= 6 || lr.violations.len() >= 16 {
            continue;
        }
        *n += 1;
        let rep = process_violation::<W>(vr, *vcounts.get(sig).unwrap_or(&1), a, &dir, &replay_dir, &known, &mut lr.harness_errors);
        lr.violations.push(rep);
    }
    lr.wall_s = t0.elapsed().as_secs_f64();
    lr
}

fn process_violation<W: World>(vr: &ViolationRun, count: u64, a: &CheckArgs, dir: &str, replay_dir: &str, known: &KnownFindings, herr: &mut Vec<String>) -> ViolationReport {
    let cfg: W::Config = serde_json::from_value(vr.config.clone()).expect("config roundtrip");
    let events: Vec<W::Event> = vr.events.iter().map(|e| serde_json::from_value(e.clone()).expect("event roundtrip")).collect();
    let is_abort = abort_check(&a.prop) == Some(vr.violation.check.as_str());
    let tmp = format!("{}/cand.json", dir);
    let mk_rf = |evs: &[W::Event], v: Option<Violation>, digest: Option<String>| ReplayFile {
        world: W::NAME.to_string(),
        property: a.prop.clone(),
        seed: a.seed,
        run: vr.run,
        config: vr.config.clone(),
        events: evs.iter().map(|e| serde_json::to_value(e).unwrap()).collect(),
        violation: v,
        digest,
        note: String::new(),
        build: build_tag().to_string(),
    };
    let target = vr.violation.clone();
    let min = if is_abort {
        let mut test = |evs: &[W::Event]| -> Option<Violation> {
            let rf = mk_rf(evs, None, None);
            let (vs, _) = exec_in_child::<W>(&rf, &tmp, false);
            vs.into_iter().find(|v| same_class(v, &target))
        };
        minimise_with::<W>(events.clone(), target.clone(), &mut test, 300)
    } else {
        let mut test = in_process_test::<W>(&cfg, &target);
        // guard: the raw run must reproduce in-process before we shrink it
        match test(&events) {
            Some(_) => minimise_with::<W>(events.clone(), target.clone(), &mut test, 2000),
            None => super::minimise::Minimised { events: events.clone(), violation: target.clone(), candidates_tried: 0 },
        }
    };
    // final: fresh process
    let name = format!("{}-{}-{}-{}-{:08x}.json", a.prop, min.violation.check.replace('.', "_"), a.seed, vr.run, fnv1a(vr.violation.signature().as_bytes()) as u32);
    let path = format!("{}/{}", replay_dir, name);
    let mut rf = mk_rf(&min.events, Some(min.violation.clone()), None);
    let (vs, co) = exec_in_child::<W>(&rf, &tmp, false);
    let hit = vs.iter().find(|v| same_class(v, &target)).cloned();
    let reproduced = hit.is_some();
    if let Some(h) = &hit {
        rf.violation = Some(h.clone());
    }
    rf.digest = co.digest.clone();
    rf.note = format!("minimised from {} to {} events ({} candidates); replay: ./check {} --replay {}", events.len(), min.events.len(), min.candidates_tried, a.prop, path);
    if !reproduced {
        herr.push(format!("violation {} did not reproduce in a fresh process (replay {})", vr.violation.signature(), path));
    }
    std::fs::write(&path, serde_json::to_vec_pretty(&rf).unwrap()).expect("write replay");
    let v = hit.unwrap_or(min.violation.clone());
    let k = known.matching(&v);
    ViolationReport {
        violation: v,
        count,
        replay: path,
        reproduced,
        known: k.map(|f| f.id.clone()),
        known_what: k.map(|f| f.what.clone()),
        events_before: events.len(),
        events_after: min.events.len(),
        candidates_tried: min.candidates_tried,
    }
}

/// `./check <id> --replay <file>`
pub fn replay_cmd<W: World>(rf: &ReplayFile, trace: bool) -> i32 {
    let tmp = format!("{}/work/replay-{}.json", verif_root(), std::process::id());
    let _ = std::fs::create_dir_all(format!("{}/work", verif_root()));
    let (vs, co) = exec_in_child::<W>(rf, &tmp, trace);
    let _ = std::fs::remove_file(&tmp);
    for l in &co.trace {
        println!("{}", l);
    }
    for e in &co.harness_errors {
        println!("HARNESS-ERROR: {}", e);
    }
    let hit = match &rf.violation {
        Some(t) => vs.iter().find(|v| same_class(v, t)),
        None => vs.first(),
    };
    match hit {
        Some(v) => {
            println!("replayed: {} {} step={} site={:?}", v.property, v.check, v.step, v.site);
            println!("  detail: {}", v.detail);
            if let (Some(d0), Some(d1)) = (&rf.digest, &co.digest) {
                println!("  digest recorded={} now={}{}", d0, d1, if d0 == d1 { " (identical execution)" } else { "" });
            }
            1
        }
        None => {
            if !co.harness_errors.is_empty() {
                return 2;
            }
            println!("replay did not reproduce the recorded violation ({} other violations)", vs.len());
            0
        }
    }
}

// ---------------------------------------------------------------------------
// report: evidence + verdict
// ---------------------------------------------------------------------------

pub struct ReportMeta {
    pub prop: String,
    pub tier: Tier,
    pub seed: u64,
    pub level: &'static str,
    pub rule: String,
    pub assumptions: Vec<String>,
    pub components_real: Vec<String>,
    pub components_stub: Vec<String>,
    pub extra: serde_json::Value,
}

pub fn report(meta: ReportMeta, legs: &[LegResult], total_wall: f64) -> i32 {
    let root = verif_root();
    let mut exit = 0;
    let mut evals = 0u64;
    let mut events = 0u64;
    let mut ops = 0u64;
    let mut shapes = 0u64;
    let mut cells = 0u64;
    let mut faults: BTreeMap<String, u64> = BTreeMap::new();
    let mut probes: BTreeMap<String, u64> = BTreeMap::new();
    let mut samples = Vec::new();
    let mut herr: Vec<String> = Vec::new();
    let mut crashes = 0;
    let mut recheck = 0;
    let mut violations_unlisted = 0i64;
    let mut known_lines: Vec<String> = Vec::new();
    let mut viol_json = Vec::new();
    let mut legs_json = Vec::new();
    let mut zero_required: Vec<String> = Vec::new();
    for l in legs {
        evals += l.evals;
        events += l.events;
        ops += l.ops;
        shapes += l.shapes_distinct;
        cells += l.cells_distinct;
        crashes += l.worker_crashes;
        recheck += l.determinism_rechecked;
        for (k, v) in &l.faults {
            *faults.entry(k.clone()).or_insert(0) += v;
        }
        for (k, v) in &l.probes {
            *probes.entry(format!("{}:{}", l.leg, k)).or_insert(0) += v;
        }
        for s in l.samples.iter().take(2) {
            samples.push(s.clone());
        }
        for e in &l.harness_errors {
            herr.push(format!("[{}] {}", l.leg, e));
        }
        if !l.determinism_ok {
            herr.push(format!("[{}] determinism self-check failed", l.leg));
        }
        for rp in &l.required_probes {
            if l.probes.get(rp).copied().unwrap_or(0) == 0 && l.faults.get(rp).copied().unwrap_or(0) == 0 {
                zero_required.push(format!("{}:{}", l.leg, rp));
            }
        }
        for v in &l.violations {
            viol_json.push(serde_json::to_value(v).unwrap());
            if !v.reproduced {
                continue; // already a harness error
            }
            match (&v.known, &v.known_what) {
                (Some(id), Some(what)) => known_lines.push(format!("KNOWN-FINDING: property={} {} [{}; check={} replay={}]", v.violation.property, what, id, v.violation.check, v.replay)),
                _ => {
                    violations_unlisted += 1;
                    println!("VIOLATION property={} replay={}", v.violation.property, v.replay);
                    println!("  check={} site={:?} occurrences={} (minimised {}→{} events)", v.violation.check, v.violation.site, v.count, v.events_before, v.events_after);
                    println!("  detail: {}", v.violation.detail);
                    exit = 1;
                }
            }
        }
        legs_json.push(serde_json::json!({
            "leg": l.leg, "world": l.world, "build": l.build, "runs": l.evals, "events": l.events, "sut_operations": l.ops,
            "distinct_shapes": l.shapes_distinct, "distinct_cells": l.cells_distinct, "batch_digest": l.batch_digest,
            "violation_signatures": l.violation_signatures, "worker_crashes": l.worker_crashes, "wall_s": l.wall_s, "workers": l.workers,
            "determinism_rechecked": l.determinism_rechecked,
        }));
    }
    // one line per listed finding (not per matching signature)
    known_lines.sort();
    known_lines.dedup_by(|a, b| {
        let id = |s: &str| s.split(" [").nth(1).and_then(|t| t.split(';').next()).map(|x| x.to_string());
        id(a) == id(b)
    });
    for k in &known_lines {
        println!("{}", k);
    }
    let zero_probes: Vec<String> = probes.iter().filter(|(_, v)| **v == 0).map(|(k, _)| k.clone()).collect();
    if !herr.is_empty() {
        for e in herr.iter().take(20) {
            println!("HARNESS-ERROR: {}", e);
        }
        if exit == 0 {
            exit = 2;
        }
    }
    if !zero_required.is_empty() {
        println!("HARNESS-ERROR: required reach probes stayed at zero: {:?}", zero_required);
        if exit == 0 {
            exit = 2;
        }
    }
    if samples.is_empty() {
        samples.push(serde_json::json!("no run completed"));
    }
    let wall = total_wall.max(1e-9);
    let mut coverage = serde_json::json!({
        "evaluations": evals,
        "distinct_nontrivial": shapes,
        "rule": meta.rule,
        "samples": samples,
        "runs_per_hour": (evals as f64 / wall * 3600.0) as u64,
        "seeds": 1,
        "seed_note": "one master seed (VERIF_SEED); every run draws from its own PRNG stream derived from (seed, world/property label, run index), so `evaluations` is also the number of distinct derived seeds executed",
        "events": events,
        "logical_steps": events,
        "simulated_time_note": "the system under test has no clock; simulated time = number of executed events (logical_steps)",
        "sut_operations": ops,
        "faults_fired": faults,
        "probes": probes,
        "zero_probes": zero_probes,
        "state_coverage_cells": cells,
        "components": {"real": meta.components_real, "stub": meta.components_stub},
        "determinism_rechecked": recheck,
        "worker_crashes": crashes,
        "legs": legs_json,
        "violation_reports": viol_json,
        "known_findings_printed": known_lines.len(),
        "harness_errors": herr,
    });
    if let (Some(c), Some(e)) = (coverage.as_object_mut(), meta.extra.as_object()) {
        for (k, v) in e {
            c.insert(k.clone(), v.clone());
        }
    }
    let ev = serde_json::json!({
        "property_id": meta.prop,
        "tier": meta.tier.as_str(),
        "seed": meta.seed,
        "level": meta.level,
        "coverage": coverage,
        "assumptions": meta.assumptions,
        "wall_s": total_wall,
        "violations": violations_unlisted,
    });
    let _ = std::fs::create_dir_all(format!("{}/evidence", root));
    let path = format!("{}/evidence/{}.json", root, meta.prop);
    std::fs::write(&path, serde_json::to_vec_pretty(&ev).unwrap()).expect("write evidence");
    println!(
        "{} {}: {} runs, {} events, {} distinct non-trivial shapes, {} cells, {} faults fired, {:.1}s — {}",
        meta.prop,
        meta.tier.as_str(),
        evals,
        events,
        shapes,
        cells,
        faults.values().sum::<u64>(),
        total_wall,
        match exit {
            0 => "property held on everything explored",
            1 => "VIOLATION",
            _ => "HARNESS ERROR",
        }
    );
    exit
}
