//! known_findings.json: committed, never written at run time.

use super::Violation;
use serde::{Deserialize, Serialize};
use std::collections::BTreeMap;

#[derive(Clone, Debug, Serialize, Deserialize)]
pub struct Finding {
    pub id: String,
    pub property: String,
    /// "known" suppresses a matching violation (KNOWN-FINDING line, exit 0);
    /// "fixed" suppresses nothing.
    pub status: String,
    #[serde(default)]
    pub commit: Option<String>,
    /// check id + the site fields that must match (subset match)
    pub check: String,
    #[serde(default)]
    pub site: BTreeMap<String, String>,
    pub what: String,
}

#[derive(Clone, Debug, Serialize, Deserialize, Default)]
pub struct KnownFindings {
    #[serde(default)]
    pub findings: Vec<Finding>,
}

impl KnownFindings {
    pub fn load(path: &str) -> Result<Self, String> {
        match std::fs::read_to_string(path) {
            Ok(s) => serde_json::from_str(&s).map_err(|e| format!("{}: {}", path, e)),
            Err(e) if e.kind() == std::io::ErrorKind::NotFound => Ok(Self::default()),
            Err(e) => Err(format!("{}: {}", path, e)),
        }
    }

    pub fn matching(&self, v: &Violation) -> Option<&Finding> {
        self.findings.iter().find(|f| {
            f.status == "known"
                && f.property == v.property
                && f.check == v.check
                && f.site.iter().all(|(k, val)| v.site.get(k) == Some(val))
        })
    }
}
