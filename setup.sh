#!/bin/bash
# one cold build of the simulator in both configurations (offline)
set -e
cd "$(dirname "$(readlink -f "$0")")"
export CARGO_NET_OFFLINE=true
(cd sim && cargo build --release --target-dir target-s)
(cd sim && cargo +nightly build --release --features nightly --target-dir target-n)
(cd sim && cargo +nightly build --release --features nightly,simd --target-dir target-nsimd)
echo setup ok
