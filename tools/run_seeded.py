#!/usr/bin/env python3
"""Runs the registered quick checks against every seeded mutant under /verif/seeded/<id>/ :
applies patch.diff to /repo (git apply), runs ./check <property> (and any extra properties
listed in meta.json 'also'), records exit code + first violation in meta.json['last_run'],
reverts /repo (git checkout -- .). Usage: run_seeded.py [id ...]"""
import json, os, subprocess, sys, time
ROOT = os.path.dirname(os.path.dirname(os.path.abspath(__file__)))
ids = sys.argv[1:] or sorted(os.listdir(os.path.join(ROOT, "seeded")))
if subprocess.run(["git", "-C", "/repo", "diff", "--quiet"]).returncode != 0:
    sys.exit("/repo is dirty")
summary = []
for i in ids:
    d = os.path.join(ROOT, "seeded", i)
    mp = os.path.join(d, "meta.json")
    if not os.path.exists(mp):
        continue
    meta = json.load(open(mp))
    props = [meta["property"]] + meta.get("also", [])
    if subprocess.run(["git", "-C", "/repo", "apply", os.path.join(d, "patch.diff")]).returncode != 0:
        summary.append((i, "PATCH DOES NOT APPLY")); continue
    res = {}
    try:
        for p in props:
            t0 = time.time()
            r = subprocess.run(["./check", p], cwd=ROOT, capture_output=True, text=True)
            lines = r.stdout.splitlines()
            viol = [l for l in lines if l.startswith("VIOLATION")]
            first = next((l.strip() for l in lines if l.strip().startswith("check=")), "")
            res[p] = {"exit": r.returncode, "violation_lines": len(viol), "first": first[:300], "wall_s": round(time.time() - t0, 1)}
    finally:
        subprocess.run(["git", "-C", "/repo", "checkout", "--", "."])
    meta["last_run"] = res
    meta["caught_by"] = [p for p, v in res.items() if v["exit"] == 1]
    json.dump(meta, open(mp, "w"), indent=1)
    summary.append((i, "caught by " + ",".join(meta["caught_by"]) if meta["caught_by"] else "MISSED"))
    print(i, summary[-1][1], flush=True)
print("\n".join(f"{a}: {b}" for a, b in summary))
