#!/bin/bash
# try_mutant.sh <patch.diff> <prop> [<prop>...]   — applies the patch to /repo, runs the quick checks, reverts.
set -u
P="$(readlink -f "$1")"; shift
cd /verif
git -C /repo diff --quiet || { echo "/repo is dirty"; exit 2; }
git -C /repo apply "$P" || { echo "patch does not apply to /repo"; exit 2; }
for id in "$@"; do
  out=$(./check "$id" 2>&1); rc=$?
  echo "== $id exit=$rc"; echo "$out" | grep -E '^(VIOLATION|KNOWN|HARNESS|C[0-9]+ )' | head -8; echo "$out" | grep -E '^  (check|detail)' | cut -c1-400 | head -6
done
git -C /repo checkout -- .
