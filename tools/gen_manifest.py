#!/usr/bin/env python3
"""Regenerates /verif/MANIFEST.json. Edit BUILT as checks come online."""
import json, os
ROOT = os.path.dirname(os.path.dirname(os.path.abspath(__file__)))
BUILT = os.environ.get("BUILT", "C02,C03,C04,C08,C11,C14,C15,C17,C19").split(",")

NA = {
 "C01": "pure function of (key, nonce, message, API form): no carried state, environment input or event between calls; deciding it is differential input generation, not simulation (DESIGN §4 C01)",
 "C05": "X25519 is a pure function of (scalar, point); low-order/twist/non-canonical points must be constructed, no fault or history produces them (DESIGN §4 C05)",
 "C06": "RFC 8032 exactness and strict verification are statements about a pure function on constructed inputs (S+kL, small-order encodings); no schedule, fault or carried state (DESIGN §4 C06)",
 "C07": "pure functions against published specifications; the interesting operands must be solved for, not met by a fault (DESIGN §4 C07)",
 "C09": "Argon2 is a pure (and expensive) function of its parameters; the parameter grid is input generation (DESIGN §4 C09)",
 "C10": "string encode/parse/needs_rehash are pure string functions; libsodium interop is differential testing (DESIGN §4 C10)",
 "C12": "pure function of (key, context, id, length); differential testing against libsodium (DESIGN §4 C12)",
 "C13": "pure functions of the seed / secret key; differential testing against libsodium (DESIGN §4 C13)",
 "C16": "codec round trips are pure; a storage fault yields a truncated document the serde format layer rejects before dryoc's visitor runs, so this family's fault model never reaches the clause (DESIGN §4 C16)",
 "C18": "compares outputs of different builds of the crate; within one build there is nothing to schedule or fail (DESIGN §4 C18)",
 "C20": "a compile-time property: nothing executes, so there is nothing to simulate (DESIGN §4 C20)",
}

CLAIMS = {
 "C02": dict(cat="exploration", tech="deterministic simulation: seeded single-corruption fault injection on the sender→receiver channel (bit flip / whole-component fill / truncate / extend per component; caller buffers of the wire length, the original length, misaligned, or still holding the untruncated ciphertext) with a byte-identity reference model",
   text="Seeded simulation of a sender and a receiver joined by a faulty channel: every sealed tuple is delivered untampered (must open to the original), with exactly one corruption of one of the listed kinds (must be rejected), and untampered again; the verdict expected is decided by byte identity with what was sealed. Sampling over suites × sender/receiver API forms × lengths × (component, bit) cells with measured cell coverage; not a proof.",
   note="MAC collisions (≤2^-100 per case) are ignored; X25519 secret/sender-public key bits are not in the fault set (clamping makes some flips void); key material comes from the simulated generator through hook H1."),
 "C03": dict(cat="exploration", tech="deterministic simulation of push/pull stream nodes with libsodium as lock-step reference replica; seeded histories with replay/skip/swap/foreign/wrong-AD/bit-flip deliveries and counter-wrap presets, rollback of the pull state to a clone after a rejection, a second session re-using the first session's header variable",
   text="Seeded histories over push, rekey, in-order delivery and wrong deliveries, started from every counter class through hook H2, with libsodium's secretstream driven by the same history: ciphertext bytes, both (key, nonce) states and accept/reject verdicts are compared after every event, a rejected pull must leave the state unchanged, and once faults stop every remaining packet must be accepted in exactly the remaining number of steps.",
   note="trusts libsodium 1.0.18 as reference; histories are short (≤ ~24 events) and sampled, not enumerated."),
 "C04": dict(cat="exploration", tech="deterministic simulation: crash-freedom invariant of every receiving node under seeded channel/store faults (truncate to every length, extend, flip, splice, garbage, any tag byte, boundary values of the Ed25519 scalar/field arithmetic in either signature half, small-order keys, mis-sized caller buffers; on the nightly build also a fork with the key in locked memory and the opening call in the child), unwind + worker-death detection + allocation high-water mark",
   text="Every receiving entry point (box/secretbox/sealed-box openers and parsers, stream pull in both APIs, signature/MAC verifiers, password-hash string parse/verify/needs-rehash) is fed what a faulty channel or store delivers; each call must return, with no unwind, no dead worker process and no single allocation above 8×input+16 MiB. Built with overflow-checks on. Sampling, with every length 0…200 visited per receiver in the thorough tier.",
   note="only totality is judged, not accept/reject correctness; password-hash strings with m>1 MiB or t>4 are not handed to functions that would compute; string faults are segment-level, not fully grammar-directed."),
 "C08": dict(cat="exploration", tech="deterministic simulation of the reader that cuts a byte stream: seeded short-read / zero-length-read schedules driving init/update/final against the one-shot function over the same bytes (seeded patterns plus a small corpus of Poly1305 carry-vector operands), dirty output buffers, and incremental-vs-one-shot verdict parity on wrong / short / long codes; an unrelated computation interleaved between reads, reads continued on another thread; software and SIMD backends",
   text="The only nondeterminism an incremental hash/MAC/signer meets is where the I/O layer cuts the stream. Seeded schedules (zero-length reads, dribble, block-aligned, off-by-one, top-up of the pending buffer, one huge piece) drive every incremental interface in both API flavours; Final is compared with the one-shot function over the bytes fed. The branch matrix (pending-buffer class × chunk class) is measured and its model-reachable cells are required probes. Sampling of schedules, not enumeration.",
   note="the one-shot function is the trusted reference (its own correctness is C07); incremental signing is compared with the single-update run and must verify incrementally."),
 "C11": dict(cat="exploration", tech="deterministic simulation with the OS random generator behind a seam (hook H1): per-call draw ledger + history oracle + independence inside one value; real-generator configuration; injected OS-generator failure (getrandom refused via seccomp in a forked child), fork and fresh-thread configurations, calls under a signal storm",
   text="All randomness goes through one seam. Under the simulated generator every randomised entry point must draw at least the documented number of bytes during the call and its random output must be (the documented image of) exactly those bytes; over each run's history no value repeats, none is all-zero and no byte position is constant. A per-call anomaly (fewer bytes drawn than documented, output not the image of the draw) becomes a violation only with sound evidence of staleness (a value of >=16 bytes that is all-zero or returned again by the next call). A second configuration runs the unhooked OsRng path with the history oracle only; a third injects failure of the OS generator: a call may fail or panic, but must not return an all-zero or repeated value.",
   note="the entry-point table is static (compiled from the source); an entry point added later is not covered until the table is extended."),
 "C14": dict(cat="exploration", tech="deterministic simulation of the protected-memory layer against the real kernel: libc mlock/munlock/mprotect/posix_memalign/free intercepted in-binary, seeded walks of the type-state graph, kernel view (/proc/self/maps, smaps incl. VM_LOCKED / VM_DONTCOPY, status, EFAULT probing) as oracle after every event; madvise / no-op mprotect refused while a handle is dropped",
   text="Seeded walks over constructors, lock/unlock/protect transitions, clone, resize, write, drop for both containers and the page-boundary length set; after every event the kernel's view of every live region (effective rights of every data page, VM_LOCKED, guard pages, contents, process VmLck) must equal the model's promised type state, and after the last drop nothing locked or protected may remain.",
   note="Linux, 4 KiB pages, /proc readable; nothing else in the worker locks memory; walks are sampled."),
 "C15": dict(cat="exploration", tech="deterministic simulation with the allocator boundary as seam: zero-filling posix_memalign/memalign and inspecting free/munmap defined in the simulator binary; seeded release-path walks (regions up to 2 MiB), also under lock-refusal plans, under mlockall, and with madvise / no-op mprotect refused while a handle is dropped",
   text="Every block the page-aligned allocator obtains is handed out zero-filled by the simulator's posix_memalign and the harness writes only non-zero bytes, so any non-zero byte found when dryoc passes the block to free is caller data that was not wiped. Seeded walks biased to release paths (drop, grow, shrink-then-drop, locked copy-resize, clone-drop, error paths).",
   note="observation is at libc free, i.e. literally before the system allocator sees the block; std Vec/stack containers without the page-aligned allocator are out of scope of the property's anchor."),
 "C17": dict(cat="exploration", tech="deterministic simulation: the C02/C03 single-corruption fault family plus forged boxes under small-order keys, with sentinel-filled caller buffers, tag variable and error values observed after each rejected open",
   text="Same sender/channel/receiver simulation as C02, observing the caller's message buffer and stream tag variable after every rejected delivery through a classic receiver: each byte must be its old value or zero, the tag variable must be untouched, and two rejections of the same fault kind and lengths must produce the same error value.",
   note="byte-wise 'unchanged or zero' is deliberately lenient so that partial wipes are not flagged; object-API receivers return only an error by type."),
 "C19": dict(cat="fault_enumeration", tech="deterministic simulation with injected lock refusals at the libc seam: for each seeded walk every refusal index k (refuse_from with EAGAIN/ENOMEM/EPERM, refuse_once, refuse_all_from) and every budget B is enumerated; a call that makes more than 100000 intercepted requests without returning is ended and reported (bounded progress); a quarter of the base walks run with standard error a broken pipe",
   text="For each sampled walk of the C14 workload the fault space is enumerated: refuse_from(k) and refuse_once(k) for every lock request k of the walk and budget(B) for every B up to its peak; every Result-returning event must return (no unwind, no dead worker), all other regions must still satisfy the C14 invariants, consumed regions must be released wiped, and the run must end with VmLck = 0.",
   note="refusals are injected instead of the system call (limit-check model); walks themselves are sampled; documented-to-panic operations (clone, resize, Default on locked types) are allowed to panic."),
}

checks = []
for pid in sorted(CLAIMS):
    if pid not in BUILT:
        continue
    c = CLAIMS[pid]
    checks.append({
        "property_id": pid,
        "quick_cmd": f"./check {pid} --tier quick",
        "thorough_cmd": f"./check {pid} --tier thorough",
        "evidence_file": f"evidence/{pid}.json",
        "replay_cmd_template": f"./check {pid} --replay {{path}}",
        "engine": "simkit",
        "level_claimed": {"category": c["cat"], "text": c["text"], "design_ref": f"DESIGN.md §4 {pid}"},
        "level_note": c["note"],
        "technique": c["tech"],
    })
na = [{"property_id": k, "reason": v} for k, v in sorted(NA.items())]
for pid in sorted(CLAIMS):
    if pid not in BUILT:
        na.append({"property_id": pid, "reason": "claimed in DESIGN.md but its check is not built yet in this commit (work in progress)"})
na.sort(key=lambda x: x["property_id"])
m = {
 "version": 1,
 "setup_cmd": "./setup.sh",
 "hooks": {
   "guard": "verif_hooks",
   "enable": "cargo feature: the simulator crate /verif/sim depends on dryoc = { path = \"/repo\", features = [\"verif_hooks\", \"base64\"] } (plus \"nightly\" for build N)",
   "baseline_off_cmd": "cd /repo && (cargo nextest run --workspace --no-fail-fast --offline || cargo test --workspace --no-fail-fast --offline)",
   "source_commits": json.load(open(os.path.join(ROOT, "tools/hook_commits.json"))),
   "add_only": True,
 },
 "engines": [{"name": "simkit", "path": "sim/", "serves_properties": [c["property_id"] for c in checks],
   "kind_free_text": "own deterministic simulator (Rust): seeded xoshiro PRNG, online event policy + pure executor, 16 forked worker processes, ddmin minimiser, replay files re-executed in a fresh process; worlds: chunk, box, stream, verifier, rng, mem"}],
 "checks": checks,
 "not_applicable": na,
 "notes": "Technique family: deterministic simulation with fault injection. VERIF_SEED selects the seed (default fixed). Exit 0 held / 1 VIOLATION / 2 harness error. Replays are written to /verif/replays/. known_findings.json lists fixed findings.",
}
json.dump(m, open(os.path.join(ROOT, "MANIFEST.json"), "w"), indent=1)
print("claimed:", [c["property_id"] for c in checks])
