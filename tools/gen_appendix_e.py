#!/usr/bin/env python3
"""Rewrites Appendix E of DESIGN.md (seeded defects) from seeded/*/meta.json."""
import json, os, re
ROOT = os.path.dirname(os.path.dirname(os.path.abspath(__file__)))
metas = []
for d in sorted(os.listdir(os.path.join(ROOT, "seeded"))):
    mp = os.path.join(ROOT, "seeded", d, "meta.json")
    if os.path.exists(mp):
        metas.append(json.load(open(mp)))
def rnd(m): return m.get("round", 1)
def row(m):
    lr = m.get("last_run", {})
    first = lr.get(m["property"], {}).get("first", "")
    chk = first.split(" ")[0].replace("check=", "") if first else ""
    caught = ", ".join(m.get("caught_by", [])) or "**MISSED**"
    note = m.get("machinery_note", "")
    return f"| {m['id']} | {m['property']} | {m['needs_to_manifest']} | {caught} | `{chk}` | {note} |"
total = len(metas); caught = sum(1 for m in metas if m.get("caught_by"))
out = []
out.append("## Appendix E — seeded defects (sensitivity)\n")
out.append(f"""Seven rounds of 18 seeded defects each and an eighth of six (rounds 1–4, 6 and 7: two per claimed property; round 5: two per group of source files, the author choosing which property to break),
every one written by a fresh sub-agent that was given only the text of one
property and its own scratch git worktree of `/repo` under `/tmp` — nothing
from `/verif`. Rounds 2 to 4 additionally received one-line summaries of the
defects already produced for that property (so as not to repeat them); round 3
was asked for defects in shared / lower-level code, defects that depend on a
rare *value*, and defects that depend on the order or repetition of API calls;
round 4 was told that the effort under evaluation is a randomised simulation
and asked for defects such sampling is unlikely to stumble on; round 6 was
given the summaries of all five earlier rounds and asked for defects that
differ from them in *kind* (a rarely used entry point or generic instantiation,
an interaction between two API families, the second use of an object or its use
after a failed call, unusual length or value classes, handling that is right
for one error kind and wrong for another, clean-up skipped when two things fail
in one call); round 7 for defects that manifest under a caller behaviour or an
environment condition rather than an input value (object or buffer re-use,
threads, fork, drop order, other system calls failing or succeeding partially,
process-wide settings, container-specific trait impls, state surviving a failed
call). Round 8 is a short round of six (one each for C02, C03, C08, C14, C17,
C19) written against the final machinery with the round-1 brief plus a list of
less common angles to prefer.
For each defect I re-ran in the scratch worktree: the demonstration on clean
HEAD (passes), the existing suite with the patch (`cargo test --offline --lib
--tests`, plus `cargo +nightly test --features nightly --lib` for
protected-memory code: green), the demonstration with the patch (fails) —
`tools/confirm_mutant.sh`; then applied the patch to `/repo`, ran the
registered quick check(s), and reverted — `tools/run_seeded.py` (results in each
`meta.json`). With the machinery as committed, **{caught} of {total}** are caught by the
quick tier; the ones that are not are discussed under "Round 7" below. The last column says what the machinery needed in order to catch
the defect when it did not as it stood at the time the defect was written.
""")
for r in (1, 2, 3, 4, 5, 6, 7, 8):
    ms = [m for m in metas if rnd(m) == r]
    if not ms: continue
    out.append(f"\n### Round {r}\n")
    out.append("| Seeded id | Property | What it needs in order to manifest | Caught by | First check that fired | Machinery change it prompted |")
    out.append("|---|---|---|---|---|---|")
    out += [row(m) for m in ms]
out.append(open(os.path.join(ROOT, "tools", "appendix_e_prose.md")).read())
text = "\n".join(out) + "\n"
p = os.path.join(ROOT, "DESIGN.md")
s = open(p).read()
i = s.index("## Appendix E")
j = s.index("## Appendix F")
s = s[:i] + text + "\n" + s[j:]
open(p, "w").write(s)
print(f"appendix E rewritten: {caught}/{total} caught")
