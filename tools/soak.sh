#!/bin/bash
# soak.sh <n seeds> : every quick check under n different VERIF_SEED values; prints any non-zero exit
cd "$(dirname "$(readlink -f "$0")")/.."
N=${1:-10}; bad=0; total=0
for i in $(seq 1 $N); do
  seed=$(( (i * 2654435761 + 12345) % 4294967296 ))
  for P in C02 C03 C04 C08 C11 C14 C15 C17 C19; do
    out=$(VERIF_SEED=$seed ./check $P 2>&1); rc=$?; total=$((total+1))
    if [ $rc -ne 0 ]; then bad=$((bad+1)); echo "SOAK-ALARM seed=$seed $P exit=$rc"; echo "$out" | grep -E '^(VIOLATION|HARNESS|  check|  detail)' | cut -c1-300 | head -6; fi
  done
  echo "seed $seed done ($i/$N), alarms so far: $bad"
done
echo "soak: $total check runs under $N seeds, $bad non-zero exits"
