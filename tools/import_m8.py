#!/usr/bin/env python3
"""import_m8.py <prop> [nightly] : confirm /tmp/m8/<prop> in its worktree and store it as seeded/<prop>-r8-1"""
import json, os, shutil, subprocess, sys
prop = sys.argv[1]; mode = sys.argv[2] if len(sys.argv) > 2 else ""
wt = f"/tmp/m8/{prop}"; m = f"{wt}/mutants/1"
os.makedirs(m, exist_ok=True)
shutil.copy(f"{wt}/patch.diff", f"{m}/patch.diff"); shutil.copy(f"{wt}/tests/demo_break.rs", f"{m}/demo.rs")
os.remove(f"{wt}/tests/demo_break.rs")
r = subprocess.run(["/verif/tools/confirm_mutant.sh", wt, "1"] + ([mode] if mode else []), capture_output=True, text=True)
res = [l for l in r.stdout.splitlines() if l.startswith("RESULT")]
print(r.stdout[-600:], r.stderr[-300:])
if not res or "=> CONFIRMED" not in res[0]:
    sys.exit("NOT CONFIRMED")
sid = f"{prop}-r8-1"; d = f"/verif/seeded/{sid}"; os.makedirs(d, exist_ok=True)
shutil.copy(f"{m}/patch.diff", f"{d}/patch.diff"); shutil.copy(f"{m}/demo.rs", f"{d}/demo.rs")
notes = open(f"{wt}/NOTES.txt").read().strip() if os.path.exists(f"{wt}/NOTES.txt") else ""
open(f"{d}/README.md", "w").write(f"# {sid}\n\nAuthor's notes (sub-agent):\n\n{notes}\n")
meta = {"id": sid, "property": prop, "also": [], "round": 8,
 "source": "independent sub-agent given only the property text and its own scratch worktree of /repo (at 9606bde) under /tmp/m8 (nothing from /verif); asked for one plausible maintainer slip that needs something specific to manifest, preferring less common angles",
 "needs_to_manifest": " ".join(notes.split())[:600],
 "demo": "demo.rs — copy to tests/mutant_demo.rs; run `cargo test --offline --test mutant_demo`" + (" (nightly: cargo +nightly test --offline --features nightly --test mutant_demo)" if mode == "nightly" else ""),
 "confirmed_in_scratch_worktree": {"commands": ["demo on clean HEAD (must pass)", "cargo test --offline --lib --tests with patch (existing suite must stay green)", "demo with patch (must fail)"], "result": res[0].split(" ", 2)[2]}}
json.dump(meta, open(f"{d}/meta.json", "w"), indent=1)
print("stored", d)
