#!/usr/bin/env python3
"""Determinism self-test: for every claimed property and many VERIF_SEED values, run the
same batch twice in different processes with different worker counts (16 and 3) and
compare the batch digests (FNV over per-run digests in run-index order).
usage: selftest_determinism.py [seeds=40] [runs=400] [props=...]
Exit 0 iff no mismatch. Uses its own scratch root, so it never disturbs ./check."""
import json, os, subprocess, sys, shutil, tempfile
ROOT = os.path.dirname(os.path.dirname(os.path.abspath(__file__)))
seeds = int(sys.argv[1]) if len(sys.argv) > 1 else 40
runs = int(sys.argv[2]) if len(sys.argv) > 2 else 400
props = sys.argv[3].split(",") if len(sys.argv) > 3 else ["C02","C03","C04","C08","C11","C14","C15","C17","C19"]
BUILDS = {"C02":["s"],"C03":["s"],"C17":["s"],"C08":["s"],"C04":["s","n"],"C11":["s","n"],"C14":["n"],"C15":["n"],"C19":["n"]}
scratch = tempfile.mkdtemp(prefix="selftest-", dir="/tmp")
shutil.copy(os.path.join(ROOT, "known_findings.json"), scratch)
env = dict(os.environ, VERIF_ROOT=scratch)
bad = 0; total = 0; alarms = 0
def digests(prop, build, seed, workers):
    binp = os.path.join(ROOT, f"sim/target-{build}/release/simctl")
    shutil.rmtree(os.path.join(scratch, "work", prop), ignore_errors=True)
    r = runs * (48 if prop == "C19" else 1) // (8 if prop == "C19" else 1)
    subprocess.run([binp, "legs", "--prop", prop, "--seed", str(seed), "--workers", str(workers), "--runs", str(r)], env=env, check=True, stdout=subprocess.DEVNULL, stderr=subprocess.DEVNULL)
    out = {}
    d = os.path.join(scratch, "work", prop)
    for f in sorted(os.listdir(d)):
        if f.startswith("leg-"):
            j = json.load(open(os.path.join(d, f)))
            out[j["leg"]] = (j["batch_digest"], j["determinism_ok"], len(j["harness_errors"]), j["violation_signatures"])
    return out
try:
    for prop in props:
        for b in BUILDS[prop]:
            for seed in range(1, seeds + 1):
                a = digests(prop, b, seed * 7919, 16)
                c = digests(prop, b, seed * 7919, 3)
                total += 1
                if a != c or any(not v[1] or v[2] for v in a.values()):
                    bad += 1
                    print("MISMATCH", prop, b, seed * 7919, a, c)
                if any(v[3] for v in a.values()):
                    alarms += 1
                    print("ALARM (violation on the unchanged tree)", prop, b, seed * 7919, a)
            print(f"{prop} build {b}: {seeds} seeds x 2 executions (W=16, W=3), {runs} runs each: ok so far, mismatches={bad}", flush=True)
finally:
    shutil.rmtree(scratch, ignore_errors=True)
print(f"determinism selftest: {total} (property, build, seed) batches compared twice, {bad} mismatches, {alarms} seeds with a violation")
sys.exit(1 if bad or alarms else 0)
