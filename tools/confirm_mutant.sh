#!/bin/bash
# confirm_mutant.sh <worktree> <n> [nightly]
# Re-verifies a sub-agent's mutant in ITS scratch worktree (never /repo):
#  (a) demo passes on the clean tree, (b) existing suite green with the patch, (c) demo fails with the patch.
set -u
WT="$1"; N="$2"; NIGHTLY="${3:-}"
M="$WT/mutants/$N"
export CARGO_TARGET_DIR="$WT/target" CARGO_NET_OFFLINE=true
cd "$WT" || exit 2
git checkout -q -- . ; rm -f tests/mutant_demo.rs
if [ "$NIGHTLY" = nightly ]; then T="cargo +nightly test --offline --features nightly"; elif [ "$NIGHTLY" = base64 ]; then T="cargo test --offline --features base64"; NIGHTLY=""; else T="cargo test --offline"; fi
cp "$M/demo.rs" tests/mutant_demo.rs
$T --test mutant_demo >"$M/confirm.clean.log" 2>&1; A=$?
rm -f tests/mutant_demo.rs
git apply "$M/patch.diff" || { echo "RESULT $WT/$N patch does not apply"; exit 1; }
cargo test --offline --lib --tests >"$M/confirm.suite.log" 2>&1; B=$?
B2=0
if [ -n "$NIGHTLY" ]; then cargo +nightly test --offline --features nightly --lib >"$M/confirm.suite-nightly.log" 2>&1; B2=$?; fi
cp "$M/demo.rs" tests/mutant_demo.rs
$T --test mutant_demo >"$M/confirm.patched.log" 2>&1; C=$?
rm -f tests/mutant_demo.rs; git checkout -q -- .
echo "RESULT $WT/$N demo_on_clean_exit=$A suite_with_patch_exit=$B nightly_suite_exit=$B2 demo_with_patch_exit=$C  => $([ $A -eq 0 ] && [ $B -eq 0 ] && [ $B2 -eq 0 ] && [ $C -ne 0 ] && echo CONFIRMED || echo NOT-CONFIRMED)"
